
(** val negb : bool -> bool **)

let negb = function
| true -> false
| false -> true

type nat =
| O
| S of nat

(** val option_map : ('a1 -> 'a2) -> 'a1 option -> 'a2 option **)

let option_map f = function
| Some a -> Some (f a)
| None -> None

type ('a, 'b) sum =
| Inl of 'a
| Inr of 'b

(** val fst : ('a1 * 'a2) -> 'a1 **)

let fst = function
| (x, _) -> x

(** val snd : ('a1 * 'a2) -> 'a2 **)

let snd = function
| (_, y) -> y

(** val length : 'a1 list -> nat **)

let rec length = function
| [] -> O
| _ :: l' -> S (length l')

(** val app : 'a1 list -> 'a1 list -> 'a1 list **)

let rec app l m =
  match l with
  | [] -> m
  | a :: l1 -> a :: (app l1 m)

type comparison =
| Eq
| Lt
| Gt

(** val compOpp : comparison -> comparison **)

let compOpp = function
| Eq -> Eq
| Lt -> Gt
| Gt -> Lt

module Coq__1 = struct
 (** val add : nat -> nat -> nat **)
 let rec add n1 m =
   match n1 with
   | O -> m
   | S p -> S (add p m)
end
include Coq__1

(** val mul : nat -> nat -> nat **)

let rec mul n1 m =
  match n1 with
  | O -> O
  | S p -> add m (mul p m)

(** val sub : nat -> nat -> nat **)

let rec sub n1 m =
  match n1 with
  | O -> n1
  | S k -> (match m with
            | O -> n1
            | S l -> sub k l)

(** val eqb : bool -> bool -> bool **)

let eqb b1 b2 =
  if b1 then b2 else if b2 then false else true

module Nat =
 struct
  (** val eqb : nat -> nat -> bool **)

  let rec eqb n1 m =
    match n1 with
    | O -> (match m with
            | O -> true
            | S _ -> false)
    | S n' -> (match m with
               | O -> false
               | S m' -> eqb n' m')

  (** val leb : nat -> nat -> bool **)

  let rec leb n1 m =
    match n1 with
    | O -> true
    | S n' -> (match m with
               | O -> false
               | S m' -> leb n' m')

  (** val ltb : nat -> nat -> bool **)

  let ltb n1 m =
    leb (S n1) m

  (** val compare : nat -> nat -> comparison **)

  let rec compare n1 m =
    match n1 with
    | O -> (match m with
            | O -> Eq
            | S _ -> Lt)
    | S n' -> (match m with
               | O -> Gt
               | S m' -> compare n' m')
 end

(** val hd : 'a1 -> 'a1 list -> 'a1 **)

let hd default = function
| [] -> default
| x :: _ -> x

(** val tl : 'a1 list -> 'a1 list **)

let tl = function
| [] -> []
| _ :: m -> m

(** val nth_error : 'a1 list -> nat -> 'a1 option **)

let rec nth_error l = function
| O -> (match l with
        | [] -> None
        | x :: _ -> Some x)
| S n2 -> (match l with
           | [] -> None
           | _ :: l0 -> nth_error l0 n2)

(** val last : 'a1 list -> 'a1 -> 'a1 **)

let rec last l d =
  match l with
  | [] -> d
  | a :: l0 -> (match l0 with
                | [] -> a
                | _ :: _ -> last l0 d)

(** val rev : 'a1 list -> 'a1 list **)

let rec rev = Stdlib.List.rev

(** val rev_append : 'a1 list -> 'a1 list -> 'a1 list **)

let rec rev_append l l' =
  match l with
  | [] -> l'
  | a :: l0 -> rev_append l0 (a :: l')

(** val list_eq_dec : ('a1 -> 'a1 -> bool) -> 'a1 list -> 'a1 list -> bool **)

let rec list_eq_dec eq_dec l l' =
  match l with
  | [] -> (match l' with
           | [] -> true
           | _ :: _ -> false)
  | y :: l0 ->
    (match l' with
     | [] -> false
     | a :: l1 -> if eq_dec y a then list_eq_dec eq_dec l0 l1 else false)

(** val map : ('a1 -> 'a2) -> 'a1 list -> 'a2 list **)

let rec map f = function
| [] -> []
| a :: t -> (f a) :: (map f t)

(** val flat_map : ('a1 -> 'a2 list) -> 'a1 list -> 'a2 list **)

let rec flat_map f = function
| [] -> []
| x :: t -> app (f x) (flat_map f t)

(** val fold_left : ('a1 -> 'a2 -> 'a1) -> 'a2 list -> 'a1 -> 'a1 **)

let rec fold_left f l a0 =
  match l with
  | [] -> a0
  | b :: t -> fold_left f t (f a0 b)

(** val fold_right : ('a2 -> 'a1 -> 'a1) -> 'a1 -> 'a2 list -> 'a1 **)

let rec fold_right f a0 = function
| [] -> a0
| b :: t -> f b (fold_right f a0 t)

(** val existsb : ('a1 -> bool) -> 'a1 list -> bool **)

let rec existsb f = function
| [] -> false
| a :: l0 -> (||) (f a) (existsb f l0)

(** val forallb : ('a1 -> bool) -> 'a1 list -> bool **)

let rec forallb f = function
| [] -> true
| a :: l0 -> (&&) (f a) (forallb f l0)

(** val find : ('a1 -> bool) -> 'a1 list -> 'a1 option **)

let rec find f = function
| [] -> None
| x :: tl0 -> if f x then Some x else find f tl0

(** val firstn : nat -> 'a1 list -> 'a1 list **)

let rec firstn n1 l =
  match n1 with
  | O -> []
  | S n2 -> (match l with
             | [] -> []
             | a :: l0 -> a :: (firstn n2 l0))

(** val skipn : nat -> 'a1 list -> 'a1 list **)

let rec skipn n1 l =
  match n1 with
  | O -> l
  | S n2 -> (match l with
             | [] -> []
             | _ :: l0 -> skipn n2 l0)

type positive =
| XI of positive
| XO of positive
| XH

type n =
| N0
| Npos of positive

type z =
| Z0
| Zpos of positive
| Zneg of positive

module Pos =
 struct
  type mask =
  | IsNul
  | IsPos of positive
  | IsNeg
 end

module Coq_Pos =
 struct
  (** val succ : positive -> positive **)

  let rec succ = function
  | XI p -> XO (succ p)
  | XO p -> XI p
  | XH -> XO XH

  (** val add : positive -> positive -> positive **)

  let rec add x y =
    match x with
    | XI p ->
      (match y with
       | XI q0 -> XO (add_carry p q0)
       | XO q0 -> XI (add p q0)
       | XH -> XO (succ p))
    | XO p ->
      (match y with
       | XI q0 -> XI (add p q0)
       | XO q0 -> XO (add p q0)
       | XH -> XI p)
    | XH -> (match y with
             | XI q0 -> XO (succ q0)
             | XO q0 -> XI q0
             | XH -> XO XH)

  (** val add_carry : positive -> positive -> positive **)

  and add_carry x y =
    match x with
    | XI p ->
      (match y with
       | XI q0 -> XI (add_carry p q0)
       | XO q0 -> XO (add_carry p q0)
       | XH -> XI (succ p))
    | XO p ->
      (match y with
       | XI q0 -> XO (add_carry p q0)
       | XO q0 -> XI (add p q0)
       | XH -> XO (succ p))
    | XH ->
      (match y with
       | XI q0 -> XI (succ q0)
       | XO q0 -> XO (succ q0)
       | XH -> XI XH)

  (** val pred_double : positive -> positive **)

  let rec pred_double = function
  | XI p -> XI (XO p)
  | XO p -> XI (pred_double p)
  | XH -> XH

  type mask = Pos.mask =
  | IsNul
  | IsPos of positive
  | IsNeg

  (** val succ_double_mask : mask -> mask **)

  let succ_double_mask = function
  | IsNul -> IsPos XH
  | IsPos p -> IsPos (XI p)
  | IsNeg -> IsNeg

  (** val double_mask : mask -> mask **)

  let double_mask = function
  | IsPos p -> IsPos (XO p)
  | x0 -> x0

  (** val double_pred_mask : positive -> mask **)

  let double_pred_mask = function
  | XI p -> IsPos (XO (XO p))
  | XO p -> IsPos (XO (pred_double p))
  | XH -> IsNul

  (** val sub_mask : positive -> positive -> mask **)

  let rec sub_mask x y =
    match x with
    | XI p ->
      (match y with
       | XI q0 -> double_mask (sub_mask p q0)
       | XO q0 -> succ_double_mask (sub_mask p q0)
       | XH -> IsPos (XO p))
    | XO p ->
      (match y with
       | XI q0 -> succ_double_mask (sub_mask_carry p q0)
       | XO q0 -> double_mask (sub_mask p q0)
       | XH -> IsPos (pred_double p))
    | XH -> (match y with
             | XH -> IsNul
             | _ -> IsNeg)

  (** val sub_mask_carry : positive -> positive -> mask **)

  and sub_mask_carry x y =
    match x with
    | XI p ->
      (match y with
       | XI q0 -> succ_double_mask (sub_mask_carry p q0)
       | XO q0 -> double_mask (sub_mask p q0)
       | XH -> IsPos (pred_double p))
    | XO p ->
      (match y with
       | XI q0 -> double_mask (sub_mask_carry p q0)
       | XO q0 -> succ_double_mask (sub_mask_carry p q0)
       | XH -> double_pred_mask p)
    | XH -> IsNeg

  (** val sub : positive -> positive -> positive **)

  let sub x y =
    match sub_mask x y with
    | IsPos z0 -> z0
    | _ -> XH

  (** val mul : positive -> positive -> positive **)

  let rec mul x y =
    match x with
    | XI p -> add y (XO (mul p y))
    | XO p -> XO (mul p y)
    | XH -> y

  (** val iter : ('a1 -> 'a1) -> 'a1 -> positive -> 'a1 **)

  let rec iter f x = function
  | XI n' -> f (iter f (iter f x n') n')
  | XO n' -> iter f (iter f x n') n'
  | XH -> f x

  (** val pow : positive -> positive -> positive **)

  let pow x =
    iter (mul x) XH

  (** val size_nat : positive -> nat **)

  let rec size_nat = function
  | XI p0 -> S (size_nat p0)
  | XO p0 -> S (size_nat p0)
  | XH -> S O

  (** val compare_cont : comparison -> positive -> positive -> comparison **)

  let rec compare_cont r x y =
    match x with
    | XI p ->
      (match y with
       | XI q0 -> compare_cont r p q0
       | XO q0 -> compare_cont Gt p q0
       | XH -> Gt)
    | XO p ->
      (match y with
       | XI q0 -> compare_cont Lt p q0
       | XO q0 -> compare_cont r p q0
       | XH -> Gt)
    | XH -> (match y with
             | XH -> r
             | _ -> Lt)

  (** val compare : positive -> positive -> comparison **)

  let compare =
    compare_cont Eq

  (** val eqb : positive -> positive -> bool **)

  let rec eqb p q0 =
    match p with
    | XI p0 -> (match q0 with
                | XI q1 -> eqb p0 q1
                | _ -> false)
    | XO p0 -> (match q0 with
                | XO q1 -> eqb p0 q1
                | _ -> false)
    | XH -> (match q0 with
             | XH -> true
             | _ -> false)

  (** val ggcdn :
      nat -> positive -> positive -> positive * (positive * positive) **)

  let rec ggcdn n1 a b =
    match n1 with
    | O -> (XH, (a, b))
    | S n2 ->
      (match a with
       | XI a' ->
         (match b with
          | XI b' ->
            (match compare a' b' with
             | Eq -> (a, (XH, XH))
             | Lt ->
               let (g, p) = ggcdn n2 (sub b' a') a in
               let (ba, aa) = p in (g, (aa, (add aa (XO ba))))
             | Gt ->
               let (g, p) = ggcdn n2 (sub a' b') b in
               let (ab, bb) = p in (g, ((add bb (XO ab)), bb)))
          | XO b0 ->
            let (g, p) = ggcdn n2 a b0 in
            let (aa, bb) = p in (g, (aa, (XO bb)))
          | XH -> (XH, (a, XH)))
       | XO a0 ->
         (match b with
          | XI _ ->
            let (g, p) = ggcdn n2 a0 b in
            let (aa, bb) = p in (g, ((XO aa), bb))
          | XO b0 -> let (g, p) = ggcdn n2 a0 b0 in ((XO g), p)
          | XH -> (XH, (a, XH)))
       | XH -> (XH, (XH, b)))

  (** val ggcd : positive -> positive -> positive * (positive * positive) **)

  let ggcd a b =
    ggcdn (Coq__1.add (size_nat a) (size_nat b)) a b

  (** val iter_op : ('a1 -> 'a1 -> 'a1) -> positive -> 'a1 -> 'a1 **)

  let rec iter_op op p a =
    match p with
    | XI p0 -> op a (iter_op op p0 (op a a))
    | XO p0 -> iter_op op p0 (op a a)
    | XH -> a

  (** val to_nat : positive -> nat **)

  let to_nat x =
    iter_op Coq__1.add x (S O)

  (** val of_nat : nat -> positive **)

  let rec of_nat = function
  | O -> XH
  | S x -> (match x with
            | O -> XH
            | S _ -> succ (of_nat x))

  (** val of_succ_nat : nat -> positive **)

  let rec of_succ_nat = function
  | O -> XH
  | S x -> succ (of_succ_nat x)
 end

module N =
 struct
  (** val add : n -> n -> n **)

  let add n1 m =
    match n1 with
    | N0 -> m
    | Npos p -> (match m with
                 | N0 -> n1
                 | Npos q0 -> Npos (Coq_Pos.add p q0))

  (** val sub : n -> n -> n **)

  let sub n1 m =
    match n1 with
    | N0 -> N0
    | Npos n' ->
      (match m with
       | N0 -> n1
       | Npos m' ->
         (match Coq_Pos.sub_mask n' m' with
          | Coq_Pos.IsPos p -> Npos p
          | _ -> N0))

  (** val mul : n -> n -> n **)

  let mul n1 m =
    match n1 with
    | N0 -> N0
    | Npos p -> (match m with
                 | N0 -> N0
                 | Npos q0 -> Npos (Coq_Pos.mul p q0))

  (** val compare : n -> n -> comparison **)

  let compare n1 m =
    match n1 with
    | N0 -> (match m with
             | N0 -> Eq
             | Npos _ -> Lt)
    | Npos n' -> (match m with
                  | N0 -> Gt
                  | Npos m' -> Coq_Pos.compare n' m')

  (** val eqb : n -> n -> bool **)

  let eqb n1 m =
    match n1 with
    | N0 -> (match m with
             | N0 -> true
             | Npos _ -> false)
    | Npos p -> (match m with
                 | N0 -> false
                 | Npos q0 -> Coq_Pos.eqb p q0)

  (** val leb : n -> n -> bool **)

  let leb x y =
    match compare x y with
    | Gt -> false
    | _ -> true

  (** val ltb : n -> n -> bool **)

  let ltb x y =
    match compare x y with
    | Lt -> true
    | _ -> false

  (** val to_nat : n -> nat **)

  let to_nat = function
  | N0 -> O
  | Npos p -> Coq_Pos.to_nat p

  (** val of_nat : nat -> n **)

  let of_nat = function
  | O -> N0
  | S n' -> Npos (Coq_Pos.of_succ_nat n')
 end

module Z =
 struct
  (** val double : z -> z **)

  let double = function
  | Z0 -> Z0
  | Zpos p -> Zpos (XO p)
  | Zneg p -> Zneg (XO p)

  (** val succ_double : z -> z **)

  let succ_double = function
  | Z0 -> Zpos XH
  | Zpos p -> Zpos (XI p)
  | Zneg p -> Zneg (Coq_Pos.pred_double p)

  (** val pred_double : z -> z **)

  let pred_double = function
  | Z0 -> Zneg XH
  | Zpos p -> Zpos (Coq_Pos.pred_double p)
  | Zneg p -> Zneg (XI p)

  (** val pos_sub : positive -> positive -> z **)

  let rec pos_sub x y =
    match x with
    | XI p ->
      (match y with
       | XI q0 -> double (pos_sub p q0)
       | XO q0 -> succ_double (pos_sub p q0)
       | XH -> Zpos (XO p))
    | XO p ->
      (match y with
       | XI q0 -> pred_double (pos_sub p q0)
       | XO q0 -> double (pos_sub p q0)
       | XH -> Zpos (Coq_Pos.pred_double p))
    | XH ->
      (match y with
       | XI q0 -> Zneg (XO q0)
       | XO q0 -> Zneg (Coq_Pos.pred_double q0)
       | XH -> Z0)

  (** val add : z -> z -> z **)

  let add x y =
    match x with
    | Z0 -> y
    | Zpos x' ->
      (match y with
       | Z0 -> x
       | Zpos y' -> Zpos (Coq_Pos.add x' y')
       | Zneg y' -> pos_sub x' y')
    | Zneg x' ->
      (match y with
       | Z0 -> x
       | Zpos y' -> pos_sub y' x'
       | Zneg y' -> Zneg (Coq_Pos.add x' y'))

  (** val opp : z -> z **)

  let opp = function
  | Z0 -> Z0
  | Zpos x0 -> Zneg x0
  | Zneg x0 -> Zpos x0

  (** val sub : z -> z -> z **)

  let sub m n1 =
    add m (opp n1)

  (** val mul : z -> z -> z **)

  let mul x y =
    match x with
    | Z0 -> Z0
    | Zpos x' ->
      (match y with
       | Z0 -> Z0
       | Zpos y' -> Zpos (Coq_Pos.mul x' y')
       | Zneg y' -> Zneg (Coq_Pos.mul x' y'))
    | Zneg x' ->
      (match y with
       | Z0 -> Z0
       | Zpos y' -> Zneg (Coq_Pos.mul x' y')
       | Zneg y' -> Zpos (Coq_Pos.mul x' y'))

  (** val pow_pos : z -> positive -> z **)

  let pow_pos z0 =
    Coq_Pos.iter (mul z0) (Zpos XH)

  (** val pow : z -> z -> z **)

  let pow x = function
  | Z0 -> Zpos XH
  | Zpos p -> pow_pos x p
  | Zneg _ -> Z0

  (** val compare : z -> z -> comparison **)

  let compare x y =
    match x with
    | Z0 -> (match y with
             | Z0 -> Eq
             | Zpos _ -> Lt
             | Zneg _ -> Gt)
    | Zpos x' -> (match y with
                  | Zpos y' -> Coq_Pos.compare x' y'
                  | _ -> Gt)
    | Zneg x' ->
      (match y with
       | Zneg y' -> compOpp (Coq_Pos.compare x' y')
       | _ -> Lt)

  (** val sgn : z -> z **)

  let sgn = function
  | Z0 -> Z0
  | Zpos _ -> Zpos XH
  | Zneg _ -> Zneg XH

  (** val leb : z -> z -> bool **)

  let leb x y =
    match compare x y with
    | Gt -> false
    | _ -> true

  (** val ltb : z -> z -> bool **)

  let ltb x y =
    match compare x y with
    | Lt -> true
    | _ -> false

  (** val eqb : z -> z -> bool **)

  let eqb x y =
    match x with
    | Z0 -> (match y with
             | Z0 -> true
             | _ -> false)
    | Zpos p -> (match y with
                 | Zpos q0 -> Coq_Pos.eqb p q0
                 | _ -> false)
    | Zneg p -> (match y with
                 | Zneg q0 -> Coq_Pos.eqb p q0
                 | _ -> false)

  (** val abs : z -> z **)

  let abs = function
  | Zneg p -> Zpos p
  | x -> x

  (** val to_nat : z -> nat **)

  let to_nat = function
  | Zpos p -> Coq_Pos.to_nat p
  | _ -> O

  (** val of_nat : nat -> z **)

  let of_nat = function
  | O -> Z0
  | S n2 -> Zpos (Coq_Pos.of_succ_nat n2)

  (** val to_pos : z -> positive **)

  let to_pos = function
  | Zpos p -> p
  | _ -> XH

  (** val pos_div_eucl : positive -> z -> z * z **)

  let rec pos_div_eucl a b =
    match a with
    | XI a' ->
      let (q0, r) = pos_div_eucl a' b in
      let r' = add (mul (Zpos (XO XH)) r) (Zpos XH) in
      if ltb r' b
      then ((mul (Zpos (XO XH)) q0), r')
      else ((add (mul (Zpos (XO XH)) q0) (Zpos XH)), (sub r' b))
    | XO a' ->
      let (q0, r) = pos_div_eucl a' b in
      let r' = mul (Zpos (XO XH)) r in
      if ltb r' b
      then ((mul (Zpos (XO XH)) q0), r')
      else ((add (mul (Zpos (XO XH)) q0) (Zpos XH)), (sub r' b))
    | XH -> if leb (Zpos (XO XH)) b then (Z0, (Zpos XH)) else ((Zpos XH), Z0)

  (** val div_eucl : z -> z -> z * z **)

  let div_eucl a b =
    match a with
    | Z0 -> (Z0, Z0)
    | Zpos a' ->
      (match b with
       | Z0 -> (Z0, a)
       | Zpos _ -> pos_div_eucl a' b
       | Zneg b' ->
         let (q0, r) = pos_div_eucl a' (Zpos b') in
         (match r with
          | Z0 -> ((opp q0), Z0)
          | _ -> ((opp (add q0 (Zpos XH))), (add b r))))
    | Zneg a' ->
      (match b with
       | Z0 -> (Z0, a)
       | Zpos _ ->
         let (q0, r) = pos_div_eucl a' b in
         (match r with
          | Z0 -> ((opp q0), Z0)
          | _ -> ((opp (add q0 (Zpos XH))), (sub b r)))
       | Zneg b' -> let (q0, r) = pos_div_eucl a' (Zpos b') in (q0, (opp r)))

  (** val div : z -> z -> z **)

  let div a b =
    let (q0, _) = div_eucl a b in q0

  (** val modulo : z -> z -> z **)

  let modulo a b =
    let (_, r) = div_eucl a b in r

  (** val ggcd : z -> z -> z * (z * z) **)

  let ggcd a b =
    match a with
    | Z0 -> ((abs b), (Z0, (sgn b)))
    | Zpos a0 ->
      (match b with
       | Z0 -> ((abs a), ((sgn a), Z0))
       | Zpos b0 ->
         let (g, p) = Coq_Pos.ggcd a0 b0 in
         let (aa, bb) = p in ((Zpos g), ((Zpos aa), (Zpos bb)))
       | Zneg b0 ->
         let (g, p) = Coq_Pos.ggcd a0 b0 in
         let (aa, bb) = p in ((Zpos g), ((Zpos aa), (Zneg bb))))
    | Zneg a0 ->
      (match b with
       | Z0 -> ((abs a), ((sgn a), Z0))
       | Zpos b0 ->
         let (g, p) = Coq_Pos.ggcd a0 b0 in
         let (aa, bb) = p in ((Zpos g), ((Zneg aa), (Zpos bb)))
       | Zneg b0 ->
         let (g, p) = Coq_Pos.ggcd a0 b0 in
         let (aa, bb) = p in ((Zpos g), ((Zneg aa), (Zneg bb))))
 end

(** val zero : char **)

let zero = '\000'

(** val one : char **)

let one = '\001'

(** val shift : bool -> char -> char **)

let shift = fun b c -> Char.chr (((Char.code c) lsl 1) land 255 + if b then 1 else 0)

(** val ascii_of_pos : positive -> char **)

let ascii_of_pos =
  let rec loop n1 p =
    match n1 with
    | O -> zero
    | S n' ->
      (match p with
       | XI p' -> shift true (loop n' p')
       | XO p' -> shift false (loop n' p')
       | XH -> one)
  in loop (S (S (S (S (S (S (S (S O))))))))

(** val ascii_of_N : n -> char **)

let ascii_of_N = function
| N0 -> zero
| Npos p -> ascii_of_pos p

(** val ascii_of_nat : nat -> char **)

let ascii_of_nat a =
  ascii_of_N (N.of_nat a)

(** val n_of_digits : bool list -> n **)

let rec n_of_digits = function
| [] -> N0
| b :: l' ->
  N.add (if b then Npos XH else N0) (N.mul (Npos (XO XH)) (n_of_digits l'))

(** val n_of_ascii : char -> n **)

let n_of_ascii a =
  (* If this appears, you're using Ascii internals. Please don't *)
 (fun f c ->
  let n = Char.code c in
  let h i = (n land (1 lsl i)) <> 0 in
  f (h 0) (h 1) (h 2) (h 3) (h 4) (h 5) (h 6) (h 7))
    (fun a0 a1 a2 a3 a4 a5 a6 a7 ->
    n_of_digits
      (a0 :: (a1 :: (a2 :: (a3 :: (a4 :: (a5 :: (a6 :: (a7 :: [])))))))))
    a

(** val nat_of_ascii : char -> nat **)

let nat_of_ascii a =
  N.to_nat (n_of_ascii a)

(** val eqb0 : char list -> char list -> bool **)

let rec eqb0 s1 s2 =
  match s1 with
  | [] -> (match s2 with
           | [] -> true
           | _::_ -> false)
  | c1::s1' ->
    (match s2 with
     | [] -> false
     | c2::s2' -> if (=) c1 c2 then eqb0 s1' s2' else false)

(** val append : char list -> char list -> char list **)

let rec append s1 s2 =
  match s1 with
  | [] -> s2
  | c::s1' -> c::(append s1' s2)

(** val length0 : char list -> nat **)

let rec length0 = function
| [] -> O
| _::s' -> S (length0 s')

(** val string_of_list_ascii : char list -> char list **)

let rec string_of_list_ascii = function
| [] -> []
| ch0 :: s0 -> ch0::(string_of_list_ascii s0)

(** val list_ascii_of_string : char list -> char list **)

let rec list_ascii_of_string = function
| [] -> []
| ch0::s0 -> ch0 :: (list_ascii_of_string s0)

type toktype =
| TErr
| TLiteral
| TQuoted
| TRegexp
| TEqual
| TGreater
| TLess
| TColon
| TPlus
| TMinus
| TTilde
| TCarrot
| TNot
| TAnd
| TOr
| TRParen
| TLParen
| TLCurly
| TRCurly
| TTO
| TLSquare
| TRSquare
| TEOF
| TStart

(** val toktype_order : toktype list **)

let toktype_order =
  TErr :: (TLiteral :: (TQuoted :: (TRegexp :: (TEqual :: (TGreater :: (TLess :: (TColon :: (TPlus :: (TMinus :: (TTilde :: (TCarrot :: (TNot :: (TAnd :: (TOr :: (TRParen :: (TLParen :: (TLCurly :: (TRCurly :: (TTO :: (TLSquare :: (TRSquare :: (TEOF :: (TStart :: [])))))))))))))))))))))))

(** val symbols : (n * toktype) list **)

let symbols =
  ((Npos (XI (XO (XI (XI (XI XH)))))), TEqual) :: (((Npos (XO (XI (XI (XI (XI
    XH)))))), TGreater) :: (((Npos (XO (XO (XI (XI (XI XH)))))),
    TLess) :: (((Npos (XO (XI (XO (XI (XI XH)))))), TColon) :: (((Npos (XI
    (XI (XO (XI (XO XH)))))), TPlus) :: (((Npos (XO (XI (XI (XI (XI (XI
    XH))))))), TTilde) :: (((Npos (XO (XI (XI (XI (XI (XO XH))))))),
    TCarrot) :: (((Npos (XI (XO (XO (XI (XO XH)))))), TRParen) :: (((Npos (XO
    (XO (XO (XI (XO XH)))))), TLParen) :: (((Npos (XI (XI (XO (XI (XI (XI
    XH))))))), TLCurly) :: (((Npos (XI (XO (XI (XI (XI (XI XH))))))),
    TRCurly) :: (((Npos (XI (XI (XO (XI (XI (XO XH))))))),
    TLSquare) :: (((Npos (XI (XO (XI (XI (XI (XO XH))))))),
    TRSquare) :: []))))))))))))

(** val terminal_tokens : toktype list **)

let terminal_tokens =
  TErr :: (TLiteral :: (TQuoted :: (TRegexp :: (TEOF :: []))))

type reducer_id =
| R_and
| R_or
| R_equal
| R_compare
| R_compareEq
| R_not
| R_sub
| R_must
| R_mustNot
| R_fuzzy
| R_boost
| R_rangeop

(** val reducer_order : reducer_id list **)

let reducer_order =
  R_and :: (R_or :: (R_equal :: (R_compare :: (R_compareEq :: (R_not :: (R_sub :: (R_must :: (R_mustNot :: (R_fuzzy :: (R_boost :: (R_rangeop :: [])))))))))))

type operator =
| Undefined
| And
| Or
| Equals
| Like
| Not
| Range
| Must
| MustNot
| Boost
| Fuzzy
| Literal
| Wild
| Regexp
| Greater
| Less
| GreaterEq
| LessEq
| In
| List

(** val operator_order : operator list **)

let operator_order =
  Undefined :: (And :: (Or :: (Equals :: (Like :: (Not :: (Range :: (Must :: (MustNot :: (Boost :: (Fuzzy :: (Literal :: (Wild :: (Regexp :: (Greater :: (Less :: (GreaterEq :: (LessEq :: (In :: (List :: [])))))))))))))))))))

(** val from_string : (char list * operator) list **)

let from_string =
  (('A'::('N'::('D'::[]))), And) :: ((('O'::('R'::[])),
    Or) :: ((('E'::('Q'::('U'::('A'::('L'::('S'::[])))))),
    Equals) :: ((('L'::('I'::('K'::('E'::[])))),
    Like) :: ((('N'::('O'::('T'::[]))),
    Not) :: ((('R'::('A'::('N'::('G'::('E'::[]))))),
    Range) :: ((('M'::('U'::('S'::('T'::[])))),
    Must) :: ((('M'::('U'::('S'::('T'::('_'::('N'::('O'::('T'::[])))))))),
    MustNot) :: ((('B'::('O'::('O'::('S'::('T'::[]))))),
    Boost) :: ((('F'::('U'::('Z'::('Z'::('Y'::[]))))),
    Fuzzy) :: ((('L'::('I'::('T'::('E'::('R'::('A'::('L'::[]))))))),
    Literal) :: ((('W'::('I'::('L'::('D'::[])))),
    Wild) :: ((('R'::('E'::('G'::('E'::('X'::('P'::[])))))),
    Regexp) :: ((('G'::('R'::('E'::('A'::('T'::('E'::('R'::[]))))))),
    Greater) :: ((('L'::('E'::('S'::('S'::[])))),
    Less) :: ((('G'::('R'::('E'::('A'::('T'::('E'::('R'::('_'::('E'::('Q'::[])))))))))),
    GreaterEq) :: ((('L'::('E'::('S'::('S'::('_'::('E'::('Q'::[]))))))),
    LessEq) :: ((('I'::('N'::[])), In) :: ((('L'::('I'::('S'::('T'::[])))),
    List) :: []))))))))))))))))))

(** val to_string : (operator * char list) list **)

let to_string =
  (And, ('A'::('N'::('D'::[])))) :: ((Or, ('O'::('R'::[]))) :: ((Equals,
    ('E'::('Q'::('U'::('A'::('L'::('S'::[]))))))) :: ((Like,
    ('L'::('I'::('K'::('E'::[]))))) :: ((Not,
    ('N'::('O'::('T'::[])))) :: ((Range,
    ('R'::('A'::('N'::('G'::('E'::[])))))) :: ((Must,
    ('M'::('U'::('S'::('T'::[]))))) :: ((MustNot,
    ('M'::('U'::('S'::('T'::('_'::('N'::('O'::('T'::[]))))))))) :: ((Boost,
    ('B'::('O'::('O'::('S'::('T'::[])))))) :: ((Fuzzy,
    ('F'::('U'::('Z'::('Z'::('Y'::[])))))) :: ((Literal,
    ('L'::('I'::('T'::('E'::('R'::('A'::('L'::[])))))))) :: ((Wild,
    ('W'::('I'::('L'::('D'::[]))))) :: ((Regexp,
    ('R'::('E'::('G'::('E'::('X'::('P'::[]))))))) :: ((Greater,
    ('G'::('R'::('E'::('A'::('T'::('E'::('R'::[])))))))) :: ((Less,
    ('L'::('E'::('S'::('S'::[]))))) :: ((GreaterEq,
    ('G'::('R'::('E'::('A'::('T'::('E'::('R'::('_'::('E'::('Q'::[]))))))))))) :: ((LessEq,
    ('L'::('E'::('S'::('S'::('_'::('E'::('Q'::[])))))))) :: ((In,
    ('I'::('N'::[]))) :: ((List,
    ('L'::('I'::('S'::('T'::[]))))) :: []))))))))))))))))))

(** val validators : (operator * char list) list **)

let validators =
  (And,
    ('v'::('a'::('l'::('i'::('d'::('a'::('t'::('e'::('A'::('n'::('d'::[])))))))))))) :: ((Or,
    ('v'::('a'::('l'::('i'::('d'::('a'::('t'::('e'::('O'::('r'::[]))))))))))) :: ((Equals,
    ('v'::('a'::('l'::('i'::('d'::('a'::('t'::('e'::('E'::('q'::('u'::('a'::('l'::('s'::[]))))))))))))))) :: ((Like,
    ('v'::('a'::('l'::('i'::('d'::('a'::('t'::('e'::('L'::('i'::('k'::('e'::[]))))))))))))) :: ((Not,
    ('v'::('a'::('l'::('i'::('d'::('a'::('t'::('e'::('N'::('o'::('t'::[])))))))))))) :: ((Range,
    ('v'::('a'::('l'::('i'::('d'::('a'::('t'::('e'::('R'::('a'::('n'::('g'::('e'::[])))))))))))))) :: ((Must,
    ('v'::('a'::('l'::('i'::('d'::('a'::('t'::('e'::('M'::('u'::('s'::('t'::[]))))))))))))) :: ((MustNot,
    ('v'::('a'::('l'::('i'::('d'::('a'::('t'::('e'::('M'::('u'::('s'::('t'::('N'::('o'::('t'::[])))))))))))))))) :: ((Boost,
    ('v'::('a'::('l'::('i'::('d'::('a'::('t'::('e'::('B'::('o'::('o'::('s'::('t'::[])))))))))))))) :: ((Fuzzy,
    ('v'::('a'::('l'::('i'::('d'::('a'::('t'::('e'::('F'::('u'::('z'::('z'::('y'::[])))))))))))))) :: ((Literal,
    ('v'::('a'::('l'::('i'::('d'::('a'::('t'::('e'::('L'::('i'::('t'::('e'::('r'::('a'::('l'::[])))))))))))))))) :: ((Wild,
    ('v'::('a'::('l'::('i'::('d'::('a'::('t'::('e'::('W'::('i'::('l'::('d'::[]))))))))))))) :: ((Regexp,
    ('v'::('a'::('l'::('i'::('d'::('a'::('t'::('e'::('R'::('e'::('g'::('e'::('x'::('p'::[]))))))))))))))) :: ((Greater,
    ('v'::('a'::('l'::('i'::('d'::('a'::('t'::('e'::('C'::('o'::('m'::('p'::('a'::('r'::('e'::[])))))))))))))))) :: ((Less,
    ('v'::('a'::('l'::('i'::('d'::('a'::('t'::('e'::('C'::('o'::('m'::('p'::('a'::('r'::('e'::[])))))))))))))))) :: ((GreaterEq,
    ('v'::('a'::('l'::('i'::('d'::('a'::('t'::('e'::('C'::('o'::('m'::('p'::('a'::('r'::('e'::[])))))))))))))))) :: ((LessEq,
    ('v'::('a'::('l'::('i'::('d'::('a'::('t'::('e'::('C'::('o'::('m'::('p'::('a'::('r'::('e'::[])))))))))))))))) :: ((In,
    ('v'::('a'::('l'::('i'::('d'::('a'::('t'::('e'::('I'::('n'::[]))))))))))) :: ((List,
    ('v'::('a'::('l'::('i'::('d'::('a'::('t'::('e'::('L'::('i'::('s'::('t'::[]))))))))))))) :: []))))))))))))))))))

(** val renderers : (operator * char list) list **)

let renderers =
  (And,
    ('r'::('e'::('n'::('d'::('e'::('r'::('B'::('a'::('s'::('i'::('c'::[])))))))))))) :: ((Or,
    ('r'::('e'::('n'::('d'::('e'::('r'::('B'::('a'::('s'::('i'::('c'::[])))))))))))) :: ((Equals,
    ('r'::('e'::('n'::('d'::('e'::('r'::('E'::('q'::('u'::('a'::('l'::('s'::[]))))))))))))) :: ((Like,
    ('r'::('e'::('n'::('d'::('e'::('r'::('B'::('a'::('s'::('i'::('c'::[])))))))))))) :: ((Not,
    ('r'::('e'::('n'::('d'::('e'::('r'::('W'::('r'::('a'::('p'::('p'::('e'::('r'::[])))))))))))))) :: ((Range,
    ('r'::('e'::('n'::('d'::('e'::('r'::('R'::('a'::('n'::('g'::('e'::[])))))))))))) :: ((Must,
    ('r'::('e'::('n'::('d'::('e'::('r'::('M'::('u'::('s'::('t'::[]))))))))))) :: ((MustNot,
    ('r'::('e'::('n'::('d'::('e'::('r'::('M'::('u'::('s'::('t'::('N'::('o'::('t'::[])))))))))))))) :: ((Boost,
    ('r'::('e'::('n'::('d'::('e'::('r'::('B'::('o'::('o'::('s'::('t'::[])))))))))))) :: ((Fuzzy,
    ('r'::('e'::('n'::('d'::('e'::('r'::('F'::('u'::('z'::('z'::('y'::[])))))))))))) :: ((Literal,
    ('r'::('e'::('n'::('d'::('e'::('r'::('L'::('i'::('t'::('e'::('r'::('a'::('l'::[])))))))))))))) :: ((Wild,
    ('r'::('e'::('n'::('d'::('e'::('r'::('L'::('i'::('t'::('e'::('r'::('a'::('l'::[])))))))))))))) :: ((Regexp,
    ('r'::('e'::('n'::('d'::('e'::('r'::('L'::('i'::('t'::('e'::('r'::('a'::('l'::[])))))))))))))) :: ((Greater,
    ('r'::('e'::('n'::('d'::('e'::('r'::('B'::('a'::('s'::('i'::('c'::[])))))))))))) :: ((Less,
    ('r'::('e'::('n'::('d'::('e'::('r'::('B'::('a'::('s'::('i'::('c'::[])))))))))))) :: ((GreaterEq,
    ('r'::('e'::('n'::('d'::('e'::('r'::('B'::('a'::('s'::('i'::('c'::[])))))))))))) :: ((LessEq,
    ('r'::('e'::('n'::('d'::('e'::('r'::('B'::('a'::('s'::('i'::('c'::[])))))))))))) :: ((In,
    ('r'::('e'::('n'::('d'::('e'::('r'::('B'::('a'::('s'::('i'::('c'::[])))))))))))) :: ((List,
    ('r'::('e'::('n'::('d'::('e'::('r'::('L'::('i'::('s'::('t'::[]))))))))))) :: []))))))))))))))))))

type renderfn_id =
| Fn_basicCompound of operator
| Fn_equals
| Fn_like
| Fn_basicWrap of operator
| Fn_rang
| Fn_noop
| Fn_literal
| Fn_greater
| Fn_less
| Fn_greaterEq
| Fn_lessEq
| Fn_inFn
| Fn_list

(** val shared_fns : (operator * renderfn_id) list **)

let shared_fns =
  (And, (Fn_basicCompound And)) :: ((Or, (Fn_basicCompound Or)) :: ((Equals,
    Fn_equals) :: ((Like, Fn_like) :: ((Not, (Fn_basicWrap Not)) :: ((Range,
    Fn_rang) :: ((Must, Fn_noop) :: ((MustNot, (Fn_basicWrap
    Not)) :: ((Literal, Fn_literal) :: ((Wild, Fn_literal) :: ((Regexp,
    Fn_literal) :: ((Greater, Fn_greater) :: ((Less, Fn_less) :: ((GreaterEq,
    Fn_greaterEq) :: ((LessEq, Fn_lessEq) :: ((In, Fn_inFn) :: ((List,
    Fn_list) :: []))))))))))))))))

(** val postgres_own_fns : (operator * renderfn_id) list **)

let postgres_own_fns =
  (Literal, Fn_literal) :: []

type q = { qnum : z; qden : positive }

(** val inject_Z : z -> q **)

let inject_Z x =
  { qnum = x; qden = XH }

(** val qcompare : q -> q -> comparison **)

let qcompare p q0 =
  Z.compare (Z.mul p.qnum (Zpos q0.qden)) (Z.mul q0.qnum (Zpos p.qden))

(** val qplus : q -> q -> q **)

let qplus x y =
  { qnum = (Z.add (Z.mul x.qnum (Zpos y.qden)) (Z.mul y.qnum (Zpos x.qden)));
    qden = (Coq_Pos.mul x.qden y.qden) }

(** val qmult : q -> q -> q **)

let qmult x y =
  { qnum = (Z.mul x.qnum y.qnum); qden = (Coq_Pos.mul x.qden y.qden) }

(** val qopp : q -> q **)

let qopp x =
  { qnum = (Z.opp x.qnum); qden = x.qden }

(** val qminus : q -> q -> q **)

let qminus x y =
  qplus x (qopp y)

(** val qinv : q -> q **)

let qinv x =
  match x.qnum with
  | Z0 -> { qnum = Z0; qden = XH }
  | Zpos p -> { qnum = (Zpos x.qden); qden = p }
  | Zneg p -> { qnum = (Zneg x.qden); qden = p }

(** val qdiv : q -> q -> q **)

let qdiv x y =
  qmult x (qinv y)

(** val qred : q -> q **)

let qred q0 =
  let { qnum = q1; qden = q2 } = q0 in
  let (r1, r2) = snd (Z.ggcd q1 (Zpos q2)) in
  { qnum = r1; qden = (Z.to_pos r2) }

(** val tt_eqb : toktype -> toktype -> bool **)

let tt_eqb a b =
  match a with
  | TErr -> (match b with
             | TErr -> true
             | _ -> false)
  | TLiteral -> (match b with
                 | TLiteral -> true
                 | _ -> false)
  | TQuoted -> (match b with
                | TQuoted -> true
                | _ -> false)
  | TRegexp -> (match b with
                | TRegexp -> true
                | _ -> false)
  | TEqual -> (match b with
               | TEqual -> true
               | _ -> false)
  | TGreater -> (match b with
                 | TGreater -> true
                 | _ -> false)
  | TLess -> (match b with
              | TLess -> true
              | _ -> false)
  | TColon -> (match b with
               | TColon -> true
               | _ -> false)
  | TPlus -> (match b with
              | TPlus -> true
              | _ -> false)
  | TMinus -> (match b with
               | TMinus -> true
               | _ -> false)
  | TTilde -> (match b with
               | TTilde -> true
               | _ -> false)
  | TCarrot -> (match b with
                | TCarrot -> true
                | _ -> false)
  | TNot -> (match b with
             | TNot -> true
             | _ -> false)
  | TAnd -> (match b with
             | TAnd -> true
             | _ -> false)
  | TOr -> (match b with
            | TOr -> true
            | _ -> false)
  | TRParen -> (match b with
                | TRParen -> true
                | _ -> false)
  | TLParen -> (match b with
                | TLParen -> true
                | _ -> false)
  | TLCurly -> (match b with
                | TLCurly -> true
                | _ -> false)
  | TRCurly -> (match b with
                | TRCurly -> true
                | _ -> false)
  | TTO -> (match b with
            | TTO -> true
            | _ -> false)
  | TLSquare -> (match b with
                 | TLSquare -> true
                 | _ -> false)
  | TRSquare -> (match b with
                 | TRSquare -> true
                 | _ -> false)
  | TEOF -> (match b with
             | TEOF -> true
             | _ -> false)
  | TStart -> (match b with
               | TStart -> true
               | _ -> false)

(** val index_of : toktype -> toktype list -> nat **)

let rec index_of t = function
| [] -> O
| x :: r -> if tt_eqb x t then O else S (index_of t r)

(** val prec : toktype -> nat **)

let prec t =
  index_of t toktype_order

type token = { typ : toktype; val0 : char list }

(** val is : toktype -> token -> bool **)

let is x t =
  tt_eqb t.typ x

(** val is_terminal : token -> bool **)

let is_terminal t =
  match t.typ with
  | TErr -> true
  | TLiteral -> true
  | TQuoted -> true
  | TRegexp -> true
  | TEOF -> true
  | _ -> false

(** val is_prefix_op : toktype -> bool **)

let is_prefix_op = function
| TPlus -> true
| TMinus -> true
| TNot -> true
| _ -> false

(** val has_less_precedence : token -> token -> bool **)

let has_less_precedence c n1 =
  if tt_eqb c.typ n1.typ
  then is_prefix_op c.typ
  else Nat.ltb (prec n1.typ) (prec c.typ)

(** val op_eqb : operator -> operator -> bool **)

let op_eqb a b =
  match a with
  | Undefined -> (match b with
                  | Undefined -> true
                  | _ -> false)
  | And -> (match b with
            | And -> true
            | _ -> false)
  | Or -> (match b with
           | Or -> true
           | _ -> false)
  | Equals -> (match b with
               | Equals -> true
               | _ -> false)
  | Like -> (match b with
             | Like -> true
             | _ -> false)
  | Not -> (match b with
            | Not -> true
            | _ -> false)
  | Range -> (match b with
              | Range -> true
              | _ -> false)
  | Must -> (match b with
             | Must -> true
             | _ -> false)
  | MustNot -> (match b with
                | MustNot -> true
                | _ -> false)
  | Boost -> (match b with
              | Boost -> true
              | _ -> false)
  | Fuzzy -> (match b with
              | Fuzzy -> true
              | _ -> false)
  | Literal -> (match b with
                | Literal -> true
                | _ -> false)
  | Wild -> (match b with
             | Wild -> true
             | _ -> false)
  | Regexp -> (match b with
               | Regexp -> true
               | _ -> false)
  | Greater -> (match b with
                | Greater -> true
                | _ -> false)
  | Less -> (match b with
             | Less -> true
             | _ -> false)
  | GreaterEq -> (match b with
                  | GreaterEq -> true
                  | _ -> false)
  | LessEq -> (match b with
               | LessEq -> true
               | _ -> false)
  | In -> (match b with
           | In -> true
           | _ -> false)
  | List -> (match b with
             | List -> true
             | _ -> false)

type value =
| VNil
| VInt of z
| VFloat of z
| VStr of char list
| VBool of bool
| VCol of char list
| VExp of expr
| VList of expr list
| VBound of value * value * bool
and expr =
| E of value * operator * value * z * z

(** val e_left : expr -> value **)

let e_left = function
| E (l, _, _, _, _) -> l

(** val e_op : expr -> operator **)

let e_op = function
| E (_, o, _, _, _) -> o

(** val e_right : expr -> value **)

let e_right = function
| E (_, _, r, _, _) -> r

(** val one_bits : z **)

let one_bits =
  Zpos (XO (XO (XO (XO (XO (XO (XO (XO (XO (XO (XO (XO (XO (XO (XO (XO (XO
    (XO (XO (XO (XO (XO (XO (XO (XO (XO (XO (XO (XO (XO (XO (XO (XO (XO (XO
    (XO (XO (XO (XO (XO (XO (XO (XO (XO (XO (XO (XO (XO (XO (XO (XO (XO (XI
    (XI (XI (XI (XI (XI (XI (XI (XI
    XH)))))))))))))))))))))))))))))))))))))))))))))))))))))))))))))

type 'a out =
| Ret of 'a
| Panic of char list

(** val bind : 'a1 out -> ('a1 -> 'a2 out) -> 'a2 out **)

let bind x f =
  match x with
  | Ret a -> f a
  | Panic s -> Panic s

type oracle = { parse_float : (char list -> z option);
                is_nan_or_inf : (z -> bool); float_pos : (z -> bool);
                float_of_int : (z -> z) }

(** val contains_char : char -> char list -> bool **)

let rec contains_char c = function
| [] -> false
| x::r -> (||) ((=) x c) (contains_char c r)

(** val remove_char : char -> char list -> char list **)

let rec remove_char c = function
| [] -> []
| x::r -> if (=) x c then remove_char c r else x::(remove_char c r)

(** val first_char : char list -> char option **)

let first_char = function
| [] -> None
| x::_ -> Some x

(** val last_char : char list -> char option **)

let rec last_char = function
| [] -> None
| x::r -> (match r with
           | [] -> Some x
           | _::_ -> last_char r)

(** val digit_val : char -> z option **)

let digit_val c =
  let n1 = Z.of_nat (nat_of_ascii c) in
  if (&&) (Z.leb (Zpos (XO (XO (XO (XO (XI XH)))))) n1)
       (Z.leb n1 (Zpos (XI (XO (XO (XI (XI XH)))))))
  then Some (Z.sub n1 (Zpos (XO (XO (XO (XO (XI XH)))))))
  else None

(** val digits : char list -> z -> z option **)

let rec digits s acc =
  match s with
  | [] -> Some acc
  | c::r ->
    (match digit_val c with
     | Some d -> digits r (Z.add (Z.mul acc (Zpos (XO (XI (XO XH))))) d)
     | None -> None)

(** val atoi : char list -> z option **)

let atoi s =
  let body = fun neg r ->
    match r with
    | [] -> None
    | _::_ ->
      (match digits r Z0 with
       | Some v ->
         let v' = if neg then Z.opp v else v in
         if (&&)
              (Z.leb (Zneg (XO (XO (XO (XO (XO (XO (XO (XO (XO (XO (XO (XO
                (XO (XO (XO (XO (XO (XO (XO (XO (XO (XO (XO (XO (XO (XO (XO
                (XO (XO (XO (XO (XO (XO (XO (XO (XO (XO (XO (XO (XO (XO (XO
                (XO (XO (XO (XO (XO (XO (XO (XO (XO (XO (XO (XO (XO (XO (XO
                (XO (XO (XO (XO (XO (XO
                XH))))))))))))))))))))))))))))))))))))))))))))))))))))))))))))))))
                v')
              (Z.leb v' (Zpos (XI (XI (XI (XI (XI (XI (XI (XI (XI (XI (XI (XI
                (XI (XI (XI (XI (XI (XI (XI (XI (XI (XI (XI (XI (XI (XI (XI
                (XI (XI (XI (XI (XI (XI (XI (XI (XI (XI (XI (XI (XI (XI (XI
                (XI (XI (XI (XI (XI (XI (XI (XI (XI (XI (XI (XI (XI (XI (XI
                (XI (XI (XI (XI (XI
                XH))))))))))))))))))))))))))))))))))))))))))))))))))))))))))))))))
         then Some v'
         else None
       | None -> None)
  in
  (match s with
   | [] -> body false s
   | a::r ->
     (* If this appears, you're using Ascii internals. Please don't *)
 (fun f c ->
  let n = Char.code c in
  let h i = (n land (1 lsl i)) <> 0 in
  f (h 0) (h 1) (h 2) (h 3) (h 4) (h 5) (h 6) (h 7))
       (fun b b0 b1 b2 b3 b4 b5 b6 ->
       if b
       then if b0
            then if b1
                 then body false s
                 else if b2
                      then if b3
                           then body false s
                           else if b4
                                then if b5
                                     then body false s
                                     else if b6
                                          then body false s
                                          else body false r
                                else body false s
                      else body false s
            else if b1
                 then if b2
                      then if b3
                           then body false s
                           else if b4
                                then if b5
                                     then body false s
                                     else if b6
                                          then body false s
                                          else body true r
                                else body false s
                      else body false s
                 else body false s
       else body false s)
       a)

(** val empty_e : value -> operator -> value -> expr **)

let empty_e l op r =
  E (l, op, r, one_bits, (Zpos XH))

(** val is_literal : value -> bool **)

let is_literal = function
| VNil -> false
| VExp _ -> false
| VList _ -> false
| VBound (_, _, _) -> false
| _ -> true

(** val is_stringlike : value -> bool **)

let is_stringlike = function
| VStr _ -> true
| VExp e -> (match e_left e with
             | VStr _ -> true
             | _ -> false)
| _ -> false

(** val operates_on_column : operator -> bool **)

let operates_on_column = function
| Equals -> true
| Like -> true
| Range -> true
| Greater -> true
| Less -> true
| GreaterEq -> true
| LessEq -> true
| In -> true
| _ -> false

(** val lit : value -> expr **)

let lit v =
  empty_e v Literal VNil

(** val wild : char list -> expr **)

let wild s =
  empty_e (VStr s) Wild VNil

(** val regexp : char list -> expr **)

let regexp s =
  empty_e (VStr s) Regexp VNil

(** val wrap_in_column : value -> value **)

let wrap_in_column = function
| VStr s -> VExp (lit (VCol s))
| VExp e -> (match e_left e with
             | VStr s -> VExp (lit (VCol s))
             | _ -> VExp e)
| _ -> VNil

(** val literal_to_expr : value -> expr **)

let literal_to_expr v = match v with
| VStr s ->
  if (&&) (Nat.leb (S (S O)) (length0 s))
       (match first_char s with
        | Some a ->
          (match last_char s with
           | Some b -> (&&) ((=) a '/') ((=) b '/')
           | None -> false)
        | None -> false)
  then regexp s
  else if (||) (contains_char '*' s) (contains_char '?' s)
       then wild s
       else lit v
| VExp e -> e
| _ -> lit v

(** val should_use_like : value -> bool **)

let should_use_like = function
| VExp e -> (match e_op e with
             | Wild -> true
             | Regexp -> true
             | _ -> false)
| _ -> false

(** val expr_new : value -> operator -> value list -> expr out **)

let expr_new left op right =
  let left0 =
    if (&&) (is_stringlike left) (operates_on_column op)
    then wrap_in_column left
    else left
  in
  let left1 =
    if (&&)
         ((&&) ((&&) (is_literal left0) (negb (op_eqb op Literal)))
           (negb (op_eqb op Wild))) (negb (op_eqb op Regexp))
    then VExp (literal_to_expr left0)
    else left0
  in
  (match op with
   | Equals ->
     (match right with
      | [] -> Ret (empty_e left1 op VNil)
      | r :: l ->
        (match l with
         | [] ->
           if should_use_like r
           then Ret (empty_e left1 Like r)
           else Ret
                  (empty_e left1 Equals
                    (match r with
                     | VNil -> VNil
                     | _ ->
                       if is_literal r then VExp (literal_to_expr r) else r))
         | _ :: _ ->
           (match r with
            | VNil -> Ret (empty_e left1 op VNil)
            | _ ->
              Ret
                (empty_e left1 op
                  (if is_literal r then VExp (literal_to_expr r) else r)))))
   | Range ->
     (match right with
      | [] -> Ret (empty_e left1 op VNil)
      | r :: l ->
        (match l with
         | [] ->
           (match r with
            | VNil -> Ret (empty_e left1 op VNil)
            | _ ->
              Ret
                (empty_e left1 op
                  (if is_literal r then VExp (literal_to_expr r) else r)))
         | mx :: l0 ->
           (match l0 with
            | [] ->
              (match r with
               | VNil -> Ret (empty_e left1 op VNil)
               | _ ->
                 Ret
                   (empty_e left1 op
                     (if is_literal r then VExp (literal_to_expr r) else r)))
            | v :: l1 ->
              (match v with
               | VBool incl ->
                 (match l1 with
                  | [] ->
                    Ret
                      (empty_e left1 Range (VBound ((VExp
                        (literal_to_expr r)), (VExp (literal_to_expr mx)),
                        incl)))
                  | _ :: _ ->
                    (match r with
                     | VNil -> Ret (empty_e left1 op VNil)
                     | _ ->
                       Ret
                         (empty_e left1 op
                           (if is_literal r
                            then VExp (literal_to_expr r)
                            else r))))
               | _ ->
                 (match r with
                  | VNil -> Ret (empty_e left1 op VNil)
                  | _ ->
                    Ret
                      (empty_e left1 op
                        (if is_literal r then VExp (literal_to_expr r) else r)))))))
   | Boost ->
     Ret (E (left1, Boost, VNil,
       (match right with
        | [] -> one_bits
        | v :: l ->
          (match v with
           | VFloat f -> (match l with
                          | [] -> f
                          | _ :: _ -> one_bits)
           | _ -> one_bits)), (Zpos XH)))
   | Fuzzy ->
     Ret (E (left1, Fuzzy, VNil, one_bits,
       (match right with
        | [] -> Zpos XH
        | v :: l ->
          (match v with
           | VInt d -> (match l with
                        | [] -> d
                        | _ :: _ -> Zpos XH)
           | _ -> Zpos XH))))
   | In ->
     (match right with
      | [] -> Ret (empty_e left1 op VNil)
      | r :: _ ->
        (match r with
         | VExp _ -> Ret (empty_e left1 In r)
         | _ ->
           Panic
             ('E'::('x'::('p'::('r'::(':'::(' '::('I'::('n'::(' '::('r'::('i'::('g'::('h'::('t'::(' '::('i'::('s'::(' '::('n'::('o'::('t'::(' '::('*'::('E'::('x'::('p'::('r'::('e'::('s'::('s'::('i'::('o'::('n'::[])))))))))))))))))))))))))))))))))))
   | List ->
     (match left1 with
      | VList l -> Ret (empty_e (VList l) List VNil)
      | _ ->
        Panic
          ('E'::('x'::('p'::('r'::(':'::(' '::('L'::('i'::('s'::('t'::(' '::('l'::('e'::('f'::('t'::[]))))))))))))))))
   | _ ->
     (match right with
      | [] -> Ret (empty_e left1 op VNil)
      | r :: _ ->
        (match r with
         | VNil -> Ret (empty_e left1 op VNil)
         | _ ->
           Ret
             (empty_e left1 op
               (if is_literal r then VExp (literal_to_expr r) else r)))))

(** val eq_ : value -> value -> expr out **)

let eq_ a b =
  expr_new a Equals (b :: [])

(** val parse_literal : oracle -> token -> expr **)

let parse_literal o t =
  match t.typ with
  | TQuoted -> lit (VStr (remove_char '"' t.val0))
  | TRegexp -> regexp t.val0
  | _ ->
    (match atoi t.val0 with
     | Some i -> lit (VInt i)
     | None ->
       (match o.parse_float t.val0 with
        | Some f ->
          if o.is_nan_or_inf f
          then if (||) (contains_char '*' t.val0) (contains_char '?' t.val0)
               then wild t.val0
               else if contains_char '\\' t.val0
                    then lit (VStr (remove_char '\\' t.val0))
                    else lit (VStr t.val0)
          else lit (VFloat f)
        | None ->
          if (||) (contains_char '*' t.val0) (contains_char '?' t.val0)
          then wild t.val0
          else if contains_char '\\' t.val0
               then lit (VStr (remove_char '\\' t.val0))
               else lit (VStr t.val0)))

type item =
| ITok of token
| IExp of expr

(** val is_leaf_op : operator -> bool **)

let is_leaf_op = function
| Literal -> true
| Wild -> true
| Regexp -> true
| _ -> false

(** val wrap_literal : expr -> char list -> expr out **)

let wrap_literal e df =
  if eqb0 df []
  then Ret e
  else if is_leaf_op (e_op e) then eq_ (VCol df) (VExp e) else Ret e

(** val value_eqb_col : value -> char list -> bool **)

let value_eqb_col v df =
  match v with
  | VCol s -> eqb0 s df
  | _ -> false

(** val chained_or_literals : char list -> expr -> expr list * bool **)

let rec chained_or_literals df e =
  let e' =
    let E (left, op, right, _, _) = e in
    (match left with
     | VExp col ->
       (match op with
        | Equals ->
          (match right with
           | VExp v ->
             if (&&) (negb (eqb0 df [])) (value_eqb_col (e_left col) df)
             then v
             else e
           | _ -> e)
        | _ -> e)
     | _ -> e)
  in
  let E (left, op, right, _, _) = e' in
  (match left with
   | VExp l ->
     (match op with
      | Or ->
        (match right with
         | VExp r ->
           let (ll, okl) = chained_or_literals df l in
           let (rl, okr) = chained_or_literals df r in
           ((app ll rl), ((&&) okl okr))
         | _ -> ([], false))
      | Literal -> ((e' :: []), true)
      | _ -> ([], false))
   | _ -> (match op with
           | Literal -> ((e' :: []), true)
           | _ -> ([], false)))

(** val drop : nat -> 'a1 list -> 'a1 list out **)

let drop n1 l =
  if Nat.leb n1 (length l)
  then Ret (skipn n1 l)
  else Panic
         ('d'::('r'::('o'::('p'::(':'::(' '::('s'::('l'::('i'::('c'::('e'::(' '::('b'::('o'::('u'::('n'::('d'::('s'::(' '::('o'::('u'::('t'::(' '::('o'::('f'::(' '::('r'::('a'::('n'::('g'::('e'::[])))))))))))))))))))))))))))))))

type red =
  item list -> token list -> char list -> (item list * token list) out option

(** val r_and_or : toktype -> operator -> red **)

let r_and_or which mk top nts df =
  match top with
  | [] -> None
  | i :: l0 ->
    (match i with
     | ITok _ -> None
     | IExp l ->
       (match l0 with
        | [] -> None
        | i0 :: l1 ->
          (match i0 with
           | ITok t ->
             (match l1 with
              | [] -> None
              | i1 :: l2 ->
                (match i1 with
                 | ITok _ -> None
                 | IExp r ->
                   (match l2 with
                    | [] ->
                      if is which t
                      then Some
                             (bind (wrap_literal l df) (fun l' ->
                               bind (wrap_literal r df) (fun r' ->
                                 bind
                                   (expr_new (VExp l') mk ((VExp r') :: []))
                                   (fun e ->
                                   bind (drop (S O) nts) (fun n' -> Ret
                                     (((IExp e) :: []), n'))))))
                      else None
                    | _ :: _ -> None)))
           | IExp _ -> None)))

(** val r_equal : red **)

let r_equal top nts df =
  match top with
  | [] -> None
  | i :: l ->
    (match i with
     | ITok _ -> None
     | IExp term ->
       (match l with
        | [] -> None
        | i0 :: l0 ->
          (match i0 with
           | ITok t ->
             (match l0 with
              | [] -> None
              | i1 :: l1 ->
                (match i1 with
                 | ITok _ -> None
                 | IExp v ->
                   (match l1 with
                    | [] ->
                      if (||) (is TEqual t) (is TColon t)
                      then let (lits, ok0) = chained_or_literals df v in
                           Some
                           (if (&&) ok0 (Nat.ltb (S O) (length lits))
                            then bind (expr_new (VList lits) List [])
                                   (fun l2 ->
                                   bind
                                     (expr_new (VExp term) In ((VExp
                                       l2) :: [])) (fun e ->
                                     bind (drop (S O) nts) (fun n' -> Ret
                                       (((IExp e) :: []), n'))))
                            else bind (eq_ (VExp term) (VExp v)) (fun e ->
                                   bind (drop (S O) nts) (fun n' -> Ret
                                     (((IExp e) :: []), n'))))
                      else None
                    | _ :: _ -> None)))
           | IExp _ -> None)))

(** val r_compare : red **)

let r_compare top nts _ =
  match top with
  | [] -> None
  | i :: l ->
    (match i with
     | ITok _ -> None
     | IExp term ->
       (match l with
        | [] -> None
        | i0 :: l0 ->
          (match i0 with
           | ITok c ->
             (match l0 with
              | [] -> None
              | i1 :: l1 ->
                (match i1 with
                 | ITok cmp ->
                   (match l1 with
                    | [] -> None
                    | i2 :: l2 ->
                      (match i2 with
                       | ITok _ -> None
                       | IExp v ->
                         (match l2 with
                          | [] ->
                            if (&&) (is TColon c)
                                 ((||) (is TGreater cmp) (is TLess cmp))
                            then Some
                                   (bind
                                     (expr_new (VExp term)
                                       (if is TGreater cmp
                                        then Greater
                                        else Less) ((VExp v) :: []))
                                     (fun e ->
                                     bind (drop (S (S O)) nts) (fun n' -> Ret
                                       (((IExp e) :: []), n'))))
                            else None
                          | _ :: _ -> None)))
                 | IExp _ -> None))
           | IExp _ -> None)))

(** val r_compare_eq : red **)

let r_compare_eq top nts _ =
  match top with
  | [] -> None
  | i :: l ->
    (match i with
     | ITok _ -> None
     | IExp term ->
       (match l with
        | [] -> None
        | i0 :: l0 ->
          (match i0 with
           | ITok c ->
             (match l0 with
              | [] -> None
              | i1 :: l1 ->
                (match i1 with
                 | ITok cmp ->
                   (match l1 with
                    | [] -> None
                    | i2 :: l2 ->
                      (match i2 with
                       | ITok eq ->
                         (match l2 with
                          | [] -> None
                          | i3 :: l3 ->
                            (match i3 with
                             | ITok _ -> None
                             | IExp v ->
                               (match l3 with
                                | [] ->
                                  if (&&)
                                       ((&&) (is TColon c)
                                         ((||) (is TGreater cmp)
                                           (is TLess cmp))) (is TEqual eq)
                                  then Some
                                         (bind
                                           (expr_new (VExp term)
                                             (if is TGreater cmp
                                              then GreaterEq
                                              else LessEq) ((VExp v) :: []))
                                           (fun e ->
                                           bind (drop (S (S (S O))) nts)
                                             (fun n' -> Ret (((IExp
                                             e) :: []), n'))))
                                  else None
                                | _ :: _ -> None)))
                       | IExp _ -> None))
                 | IExp _ -> None))
           | IExp _ -> None)))

(** val split_last2 : 'a1 list -> (('a1 list * 'a1) * 'a1) option **)

let rec split_last2 = function
| [] -> None
| x :: r ->
  (match r with
   | [] ->
     (match split_last2 r with
      | Some p0 ->
        let (p1, b) = p0 in let (p, a) = p1 in Some (((x :: p), a), b)
      | None -> None)
   | b :: l0 ->
     (match l0 with
      | [] -> Some (([], x), b)
      | _ :: _ ->
        (match split_last2 r with
         | Some p0 ->
           let (p1, b0) = p0 in let (p, a) = p1 in Some (((x :: p), a), b0)
         | None -> None)))

(** val r_not : red **)

let r_not top nts df =
  match split_last2 top with
  | Some p ->
    let (p0, i) = p in
    let (pre, i0) = p0 in
    (match i0 with
     | ITok t ->
       (match i with
        | ITok _ -> None
        | IExp x ->
          if is TNot t
          then Some
                 (bind (wrap_literal x df) (fun x' ->
                   bind (expr_new (VExp x') Not []) (fun e ->
                     bind (drop (S O) nts) (fun n' -> Ret
                       ((app pre ((IExp e) :: [])), n')))))
          else None)
     | IExp _ -> None)
  | None -> None

(** val r_sub : red **)

let r_sub top nts _ =
  match top with
  | [] -> None
  | i :: l ->
    (match i with
     | ITok a ->
       (match l with
        | [] -> None
        | i0 :: l0 ->
          (match i0 with
           | ITok _ -> None
           | IExp inner ->
             (match l0 with
              | [] -> None
              | i1 :: l1 ->
                (match i1 with
                 | ITok b ->
                   (match l1 with
                    | [] ->
                      if (&&) (is TLParen a) (is TRParen b)
                      then Some
                             (bind (drop (S (S O)) nts) (fun n' -> Ret
                               (((IExp inner) :: []), n')))
                      else None
                    | _ :: _ -> None)
                 | IExp _ -> None))))
     | IExp _ -> None)

(** val r_prefix : toktype -> operator -> red **)

let r_prefix which mk top nts df =
  match top with
  | [] -> None
  | i :: l ->
    (match i with
     | ITok t ->
       (match l with
        | [] -> None
        | i0 :: l0 ->
          (match i0 with
           | ITok _ -> None
           | IExp rest0 ->
             (match l0 with
              | [] ->
                if is which t
                then Some
                       (bind (wrap_literal rest0 df) (fun r' ->
                         bind (expr_new (VExp r') mk []) (fun e ->
                           bind (drop (S O) nts) (fun n' -> Ret (((IExp
                             e) :: []), n')))))
                else None
              | _ :: _ -> None)))
     | IExp _ -> None)

(** val r_fuzzy : red **)

let r_fuzzy top nts df =
  match top with
  | [] -> None
  | i :: l ->
    (match i with
     | ITok _ -> None
     | IExp rest0 ->
       (match l with
        | [] -> None
        | i0 :: l0 ->
          (match i0 with
           | ITok t ->
             (match l0 with
              | [] ->
                if is TTilde t
                then Some
                       (bind (wrap_literal rest0 df) (fun r' ->
                         bind
                           (expr_new (VExp r') Fuzzy ((VInt (Zpos XH)) :: []))
                           (fun e ->
                           bind (drop (S O) nts) (fun n' -> Ret (((IExp
                             e) :: []), n')))))
                else None
              | i1 :: l1 ->
                (match i1 with
                 | ITok _ -> None
                 | IExp d ->
                   (match l1 with
                    | [] ->
                      if is TTilde t
                      then (match e_left d with
                            | VInt n1 ->
                              (match e_op d with
                               | Literal ->
                                 Some
                                   (bind (wrap_literal rest0 df) (fun r' ->
                                     bind
                                       (expr_new (VExp r') Fuzzy ((VInt
                                         n1) :: [])) (fun e ->
                                       bind (drop (S O) nts) (fun n' -> Ret
                                         (((IExp e) :: []), n')))))
                               | _ -> None)
                            | _ -> None)
                      else None
                    | _ :: _ -> None)))
           | IExp _ -> None)))

(** val to_positive_float : oracle -> expr -> z option **)

let to_positive_float o e =
  match e_op e with
  | Literal ->
    (match e_left e with
     | VInt v -> if Z.ltb Z0 v then Some (o.float_of_int v) else None
     | VFloat f ->
       if (&&) (o.float_pos f) (negb (o.is_nan_or_inf f))
       then Some f
       else None
     | _ -> None)
  | _ -> None

(** val r_boost : oracle -> red **)

let r_boost o top nts df =
  match top with
  | [] -> None
  | i :: l ->
    (match i with
     | ITok _ -> None
     | IExp rest0 ->
       (match l with
        | [] -> None
        | i0 :: l0 ->
          (match i0 with
           | ITok t ->
             (match l0 with
              | [] ->
                if is TCarrot t
                then Some
                       (bind (wrap_literal rest0 df) (fun r' ->
                         bind
                           (expr_new (VExp r') Boost ((VFloat
                             one_bits) :: [])) (fun e ->
                           bind (drop (S O) nts) (fun n' -> Ret (((IExp
                             e) :: []), n')))))
                else None
              | i1 :: l1 ->
                (match i1 with
                 | ITok _ -> None
                 | IExp p ->
                   (match l1 with
                    | [] ->
                      if is TCarrot t
                      then (match to_positive_float o p with
                            | Some f ->
                              Some
                                (bind (wrap_literal rest0 df) (fun r' ->
                                  bind
                                    (expr_new (VExp r') Boost ((VFloat
                                      f) :: [])) (fun e ->
                                    bind (drop (S O) nts) (fun n' -> Ret
                                      (((IExp e) :: []), n')))))
                            | None -> None)
                      else None
                    | _ :: _ -> None)))
           | IExp _ -> None)))

(** val r_range : red **)

let r_range top nts _ =
  match top with
  | [] -> None
  | i :: l ->
    (match i with
     | ITok _ -> None
     | IExp term ->
       (match l with
        | [] -> None
        | i0 :: l0 ->
          (match i0 with
           | ITok c ->
             (match l0 with
              | [] -> None
              | i1 :: l1 ->
                (match i1 with
                 | ITok op ->
                   (match l1 with
                    | [] -> None
                    | i2 :: l2 ->
                      (match i2 with
                       | ITok _ -> None
                       | IExp s ->
                         (match l2 with
                          | [] -> None
                          | i3 :: l3 ->
                            (match i3 with
                             | ITok to0 ->
                               (match l3 with
                                | [] -> None
                                | i4 :: l4 ->
                                  (match i4 with
                                   | ITok _ -> None
                                   | IExp e ->
                                     (match l4 with
                                      | [] -> None
                                      | i5 :: l5 ->
                                        (match i5 with
                                         | ITok cl ->
                                           (match l5 with
                                            | [] ->
                                              if (&&)
                                                   ((&&)
                                                     ((&&) (is TColon c)
                                                       ((||) (is TLSquare op)
                                                         (is TLCurly op)))
                                                     ((||) (is TRSquare cl)
                                                       (is TRCurly cl)))
                                                   (is TTO to0)
                                              then Some
                                                     (bind
                                                       (expr_new (VExp term)
                                                         Range ((VExp
                                                         s) :: ((VExp
                                                         e) :: ((VBool
                                                         ((&&)
                                                           (is TLSquare op)
                                                           (is TRSquare cl))) :: []))))
                                                       (fun r ->
                                                       bind
                                                         (drop (S (S (S (S
                                                           O)))) nts)
                                                         (fun n' -> Ret
                                                         (((IExp r) :: []),
                                                         n'))))
                                              else None
                                            | _ :: _ -> None)
                                         | IExp _ -> None))))
                             | IExp _ -> None))))
                 | IExp _ -> None))
           | IExp _ -> None)))

(** val reducers : oracle -> red list **)

let reducers o =
  (r_and_or TAnd And) :: ((r_and_or TOr Or) :: (r_equal :: (r_compare :: (r_compare_eq :: (r_not :: (r_sub :: (
    (r_prefix TPlus Must) :: ((r_prefix TMinus MustNot) :: (r_fuzzy :: (
    (r_boost o) :: (r_range :: [])))))))))))

(** val try_reducers :
    red list -> item list -> token list -> char list -> (item list * token
    list) out option **)

let rec try_reducers rs0 top nts df =
  match rs0 with
  | [] -> None
  | r :: rest0 ->
    (match r top nts df with
     | Some x -> Some x
     | None -> try_reducers rest0 top nts df)

type rres =
| RFail
| RPanic of char list
| ROk of item list * token list

(** val reduce_loop :
    oracle -> item list -> item list -> token list -> char list -> rres **)

let rec reduce_loop o rstack top nts df =
  match rstack with
  | [] -> RFail
  | s :: rest0 ->
    (match try_reducers (reducers o) (s :: top) nts df with
     | Some o0 ->
       (match o0 with
        | Ret a -> let (top', nts') = a in ROk ((rev_append top' rest0), nts')
        | Panic p -> RPanic p)
     | None -> reduce_loop o rest0 (s :: top) nts df)

(** val any_open_bracket : token -> token -> bool **)

let any_open_bracket c n1 =
  (||)
    ((||)
      ((||) ((||) ((||) (is TLSquare c) (is TLSquare n1)) (is TLCurly c))
        (is TLCurly n1)) (is TLParen c)) (is TLParen n1)

(** val should_shift : token list -> token -> bool out **)

let should_shift nts next0 =
  if is TEOF next0
  then Ret false
  else if is TErr next0
       then Ret false
       else (match nts with
             | [] ->
               Panic
                 ('n'::('o'::('n'::('T'::('e'::('r'::('m'::('i'::('n'::('a'::('l'::('s'::('['::('l'::('e'::('n'::('-'::('1'::(']'::[])))))))))))))))))))
             | curr :: _ ->
               if is_terminal next0
               then Ret true
               else if any_open_bracket curr next0
                    then Ret true
                    else if (||) (is TRSquare next0) (is TRCurly next0)
                         then Ret true
                         else if (||)
                                   ((||) (is TRParen curr) (is TRSquare curr))
                                   (is TRCurly curr)
                              then Ret false
                              else Ret (has_less_precedence curr next0))

type cfg = { rs : item list; ns : token list; toks : token list;
             pend : expr option }

type res =
| Next of cfg
| Accept of expr
| Reject
| Crash of char list

(** val eof : token **)

let eof =
  { typ = TEOF; val0 = ('E'::('O'::('F'::[]))) }

(** val impl_and : token **)

let impl_and =
  { typ = TAnd; val0 = ('A'::('N'::('D'::[]))) }

(** val start : token **)

let start =
  { typ = TStart; val0 = [] }

(** val do_reduce : oracle -> cfg -> char list -> res **)

let do_reduce o c df =
  match reduce_loop o c.rs [] c.ns df with
  | RFail -> Reject
  | RPanic s -> Crash s
  | ROk (r, n1) -> Next { rs = r; ns = n1; toks = c.toks; pend = c.pend }

(** val step : oracle -> char list -> cfg -> res **)

let step o df c =
  match c.pend with
  | Some l ->
    (match should_shift c.ns impl_and with
     | Ret a ->
       if a
       then Next { rs = ((IExp l) :: ((ITok impl_and) :: c.rs)); ns =
              (impl_and :: c.ns); toks = c.toks; pend = None }
       else do_reduce o c df
     | Panic s -> Crash s)
  | None ->
    let next0 = hd eof c.toks in
    if (&&) (is TEOF next0) (Nat.eqb (length c.rs) (S O))
    then (match c.rs with
          | [] -> Reject
          | i :: l ->
            (match i with
             | ITok _ -> Reject
             | IExp e ->
               (match l with
                | [] ->
                  if (&&) (is_leaf_op (e_op e)) (negb (eqb0 df []))
                  then (match eq_ (VCol df) (VExp e) with
                        | Ret e' -> Accept e'
                        | Panic s -> Crash s)
                  else Accept e
                | _ :: _ -> Reject)))
    else (match should_shift c.ns next0 with
          | Ret a ->
            if a
            then if is_terminal next0
                 then let l = parse_literal o next0 in
                      (match c.rs with
                       | [] ->
                         Next { rs = ((IExp l) :: c.rs); ns = c.ns; toks =
                           (tl c.toks); pend = None }
                       | i :: _ ->
                         (match i with
                          | ITok _ ->
                            Next { rs = ((IExp l) :: c.rs); ns = c.ns; toks =
                              (tl c.toks); pend = None }
                          | IExp _ ->
                            Next { rs = c.rs; ns = c.ns; toks = (tl c.toks);
                              pend = (Some l) }))
                 else Next { rs = ((ITok next0) :: c.rs); ns =
                        (next0 :: c.ns); toks = (tl c.toks); pend = None }
            else do_reduce o c df
          | Panic s -> Crash s)

type presult =
| PTree of expr
| PErr
| PPanic of char list
| POutOfFuel

(** val run : oracle -> nat -> char list -> cfg -> presult **)

let rec run o fuel df c =
  match fuel with
  | O -> POutOfFuel
  | S f ->
    (match step o df c with
     | Next c' -> run o f df c'
     | Accept e -> PTree e
     | Reject -> PErr
     | Crash s -> PPanic s)

(** val is_literal_expr : value -> bool **)

let is_literal_expr = function
| VExp e -> (&&) (is_leaf_op (e_op e)) (is_literal (e_left e))
| _ -> false

(** val is_nil : value -> bool **)

let is_nil = function
| VNil -> true
| _ -> false

(** val is_bound : value -> bool **)

let is_bound = function
| VBound (_, _, _) -> true
| _ -> false

(** val validate_node : expr -> bool **)

let validate_node e =
  let l = e_left e in
  let r = e_right e in
  (&&)
    (match e_op e with
     | Range -> true
     | _ -> (&&) (negb (is_bound l)) (negb (is_bound r)))
    (match e_op e with
     | Undefined -> false
     | And -> (&&) (negb (is_nil l)) (negb (is_nil r))
     | Or -> (&&) (negb (is_nil l)) (negb (is_nil r))
     | Equals -> is_literal_expr l
     | Like ->
       (&&) ((&&) (negb (is_nil l)) (is_literal_expr l))
         (match r with
          | VExp x ->
            (match e_op x with
             | Wild -> true
             | Regexp -> true
             | _ -> false)
          | _ -> false)
     | Range ->
       (&&)
         ((&&) ((&&) (negb (is_nil l)) (negb (is_nil r))) (is_literal_expr l))
         (match r with
          | VBound (mn, mx, _) ->
            (&&)
              ((&&) ((&&) (negb (is_nil mn)) (negb (is_nil mx)))
                (is_literal_expr mn)) (is_literal_expr mx)
          | _ -> false)
     | Literal -> (&&) ((&&) (negb (is_nil l)) (is_nil r)) (is_literal l)
     | Wild -> (&&) ((&&) (negb (is_nil l)) (is_nil r)) (is_literal l)
     | Regexp -> (&&) ((&&) (negb (is_nil l)) (is_nil r)) (is_literal l)
     | Greater -> is_literal_expr l
     | Less -> is_literal_expr l
     | GreaterEq -> is_literal_expr l
     | LessEq -> is_literal_expr l
     | In ->
       (&&) ((&&) (negb (is_nil l)) (is_literal_expr l))
         (match r with
          | VExp x -> op_eqb (e_op x) List
          | _ -> false)
     | List ->
       (&&) ((&&) (negb (is_nil l)) (is_nil r))
         (match l with
          | VList xs -> forallb (fun x -> is_literal_expr (VExp x)) xs
          | _ -> false)
     | _ -> (&&) (negb (is_nil l)) (is_nil r))

(** val validate : expr -> bool **)

let rec validate e =
  (&&) (validate_node e)
    (let E (l, _, r, _, _) = e in
     (&&) (match l with
           | VExp x -> validate x
           | _ -> true) (match r with
                         | VExp x -> validate x
                         | _ -> true))

(** val parse_toks : oracle -> char list -> token list -> presult **)

let parse_toks o df ts =
  match run o (add (mul (S (S (S (S O)))) (length ts)) (S (S (S (S O))))) df
          { rs = []; ns = (start :: []); toks = ts; pend = None } with
  | PTree e -> if validate e then PTree e else PErr
  | x -> x

type oracle2 = { fmt_v : (z -> char list); fmt_2f : (z -> char list);
                 fmt_1f : (z -> char list); f_gt1 : (z -> bool);
                 go_quote : (char list -> char list);
                 json_str : (char list -> char list);
                 json_num : (z -> char list option);
                 pfloat : (char list -> z option);
                 valid_utf8 : (char list -> bool) }

(** val z_digits : nat -> z -> char list -> char list **)

let rec z_digits fuel n1 acc =
  match fuel with
  | O -> acc
  | S f ->
    let d =
      ascii_of_nat
        (add (S (S (S (S (S (S (S (S (S (S (S (S (S (S (S (S (S (S (S (S (S
          (S (S (S (S (S (S (S (S (S (S (S (S (S (S (S (S (S (S (S (S (S (S
          (S (S (S (S (S O))))))))))))))))))))))))))))))))))))))))))))))))
          (Z.to_nat (Z.modulo n1 (Zpos (XO (XI (XO XH)))))))
    in
    let acc' = d::acc in
    if Z.eqb (Z.div n1 (Zpos (XO (XI (XO XH))))) Z0
    then acc'
    else z_digits f (Z.div n1 (Zpos (XO (XI (XO XH))))) acc'

(** val z_to_string : z -> char list **)

let z_to_string n1 =
  if Z.ltb n1 Z0
  then append ('-'::[])
         (z_digits (S (S (S (S (S (S (S (S (S (S (S (S (S (S (S (S (S (S (S
           (S (S (S (S (S (S (S (S (S (S (S O))))))))))))))))))))))))))))))
           (Z.opp n1) [])
  else z_digits (S (S (S (S (S (S (S (S (S (S (S (S (S (S (S (S (S (S (S (S
         (S (S (S (S (S (S (S (S (S (S O)))))))))))))))))))))))))))))) n1 []

(** val join : char list -> char list list -> char list **)

let rec join sep = function
| [] -> []
| x :: r ->
  (match r with
   | [] -> x
   | _ :: _ -> append x (append sep (join sep r)))

(** val replace_char : char -> char list -> char list -> char list **)

let rec replace_char c by_ = function
| [] -> []
| x::r ->
  if (=) x c
  then append by_ (replace_char c by_ r)
  else x::(replace_char c by_ r)

(** val nth_char : nat -> char list -> char option **)

let rec nth_char n1 = function
| [] -> None
| c::r -> (match n1 with
           | O -> Some c
           | S n' -> nth_char n' r)

(** val char_at_is : char list -> nat -> char -> bool **)

let char_at_is s n1 c =
  match nth_char n1 s with
  | Some x -> (=) x c
  | None -> false

(** val split_comma : char list -> char list -> char list list **)

let rec split_comma s cur =
  match s with
  | [] -> cur :: []
  | c::r ->
    if (=) c ','
    then cur :: (split_comma r [])
    else split_comma r (append cur (c::[]))

(** val trim_left : char list -> char list **)

let rec trim_left s = match s with
| [] -> s
| a::r ->
  (* If this appears, you're using Ascii internals. Please don't *)
 (fun f c ->
  let n = Char.code c in
  let h i = (n land (1 lsl i)) <> 0 in
  f (h 0) (h 1) (h 2) (h 3) (h 4) (h 5) (h 6) (h 7))
    (fun b b0 b1 b2 b3 b4 b5 b6 ->
    if b
    then s
    else if b0
         then s
         else if b1
              then s
              else if b2
                   then s
                   else if b3
                        then s
                        else if b4
                             then if b5
                                  then s
                                  else if b6 then s else trim_left r
                             else s)
    a

(** val rev_str : char list -> char list -> char list **)

let rec rev_str s acc =
  match s with
  | [] -> acc
  | c::r -> rev_str r (c::acc)

(** val trim : char list -> char list **)

let trim s =
  rev_str (trim_left (rev_str (trim_left s) [])) []

(** val op_string : operator -> char list **)

let op_string = function
| Undefined -> []
| And -> 'A'::('N'::('D'::[]))
| Or -> 'O'::('R'::[])
| Equals -> 'E'::('Q'::('U'::('A'::('L'::('S'::[])))))
| Like -> 'L'::('I'::('K'::('E'::[])))
| Not -> 'N'::('O'::('T'::[]))
| Range -> 'R'::('A'::('N'::('G'::('E'::[]))))
| Must -> 'M'::('U'::('S'::('T'::[])))
| MustNot -> 'M'::('U'::('S'::('T'::('_'::('N'::('O'::('T'::[])))))))
| Boost -> 'B'::('O'::('O'::('S'::('T'::[]))))
| Fuzzy -> 'F'::('U'::('Z'::('Z'::('Y'::[]))))
| Literal -> 'L'::('I'::('T'::('E'::('R'::('A'::('L'::[]))))))
| Wild -> 'W'::('I'::('L'::('D'::[])))
| Regexp -> 'R'::('E'::('G'::('E'::('X'::('P'::[])))))
| Greater -> 'G'::('R'::('E'::('A'::('T'::('E'::('R'::[]))))))
| Less -> 'L'::('E'::('S'::('S'::[])))
| GreaterEq ->
  'G'::('R'::('E'::('A'::('T'::('E'::('R'::('_'::('E'::('Q'::[])))))))))
| LessEq -> 'L'::('E'::('S'::('S'::('_'::('E'::('Q'::[]))))))
| In -> 'I'::('N'::[])
| List -> 'L'::('I'::('S'::('T'::[])))

type ftext = { txt : char list; bad : bool; opaque : bool }

(** val ok : char list -> ftext **)

let ok s =
  { txt = s; bad = false; opaque = false }

(** val badv : char list -> ftext **)

let badv s =
  { txt = s; bad = true; opaque = false }

(** val cat : ftext -> ftext -> ftext **)

let cat a b =
  { txt = (append a.txt b.txt); bad = ((||) a.bad b.bad); opaque =
    ((||) a.opaque b.opaque) }

(** val cats : ftext list -> ftext **)

let rec cats = function
| [] -> ok []
| x :: r -> cat x (cats r)

(** val joinf : char list -> ftext list -> ftext **)

let rec joinf sep = function
| [] -> ok []
| x :: r ->
  (match r with
   | [] -> x
   | _ :: _ -> cat x (cat (ok sep) (joinf sep r)))

(** val bool_str : bool -> char list **)

let bool_str = function
| true -> 't'::('r'::('u'::('e'::[])))
| false -> 'f'::('a'::('l'::('s'::('e'::[]))))

(** val vb : nat -> bool **)

let vb = function
| O -> false
| S n1 ->
  (match n1 with
   | O -> false
   | S n2 -> (match n2 with
              | O -> true
              | S _ -> false))

(** val str_e : oracle2 -> bool -> expr -> ftext out **)

let str_e o2 =
  let rec str_e0 verbose = function
  | E (l, op, r, boost, fuzzy) ->
    let how = if verbose then S (S O) else O in
    (match op with
     | Undefined -> Ret (ok [])
     | Equals ->
       bind (str_v how l) (fun a ->
         bind (str_v how r) (fun b -> Ret
           (cats (a :: ((ok (':'::[])) :: (b :: []))))))
     | Not ->
       bind (str_v how l) (fun a -> Ret
         (cats
           ((ok (append (op_string op) ('('::[]))) :: (a :: ((ok (')'::[])) :: [])))))
     | Range ->
       (match r with
        | VBound (mn, mx, incl) ->
          bind (str_v how l) (fun a ->
            bind (str_v how mn) (fun b ->
              bind (str_v how mx) (fun c -> Ret
                (if incl
                 then cats
                        (a :: ((ok (':'::('['::[]))) :: (b :: ((ok
                                                                 (' '::('T'::('O'::(' '::[]))))) :: (c :: (
                        (ok (']'::[])) :: []))))))
                 else cats
                        (a :: ((ok (':'::('{'::[]))) :: (b :: ((ok
                                                                 (' '::('T'::('O'::(' '::[]))))) :: (c :: (
                        (ok ('}'::[])) :: []))))))))))
        | _ ->
          Panic
            ('r'::('e'::('n'::('d'::('e'::('r'::('R'::('a'::('n'::('g'::('e'::(':'::(' '::('e'::('.'::('R'::('i'::('g'::('h'::('t'::('.'::('('::('*'::('R'::('a'::('n'::('g'::('e'::('B'::('o'::('u'::('n'::('d'::('a'::('r'::('y'::(')'::[]))))))))))))))))))))))))))))))))))))))
     | Must ->
       bind (str_v how l) (fun a -> Ret
         (if verbose
          then cats
                 ((ok (append (op_string op) ('('::[]))) :: (a :: ((ok
                                                                    (')'::[])) :: [])))
          else cat (ok ('+'::[])) a))
     | MustNot ->
       bind (str_v how l) (fun a -> Ret
         (if verbose
          then cats
                 ((ok (append (op_string op) ('('::[]))) :: (a :: ((ok
                                                                    (')'::[])) :: [])))
          else cat (ok ('-'::[])) a))
     | Boost ->
       bind (str_v how l) (fun a -> Ret
         (if verbose
          then if o2.f_gt1 boost
               then cats
                      ((ok (append (op_string op) ('('::[]))) :: (a :: (
                      (ok
                        (append ('^'::[])
                          (append (o2.fmt_1f boost) (')'::[])))) :: [])))
               else cats
                      ((ok (append (op_string op) ('('::[]))) :: (a :: (
                      (ok (')'::[])) :: [])))
          else if o2.f_gt1 boost
               then cats
                      (a :: ((ok (append ('^'::[]) (o2.fmt_1f boost))) :: []))
               else cat a (ok ('^'::[]))))
     | Fuzzy ->
       bind (str_v how l) (fun a -> Ret
         (if verbose
          then if Z.ltb (Zpos XH) fuzzy
               then cats
                      ((ok (append (op_string op) ('('::[]))) :: (a :: (
                      (ok
                        (append ('~'::[])
                          (append (z_to_string fuzzy) (')'::[])))) :: [])))
               else cats
                      ((ok (append (op_string op) ('('::[]))) :: (a :: (
                      (ok (')'::[])) :: [])))
          else if Z.ltb (Zpos XH) fuzzy
               then cats
                      (a :: ((ok (append ('~'::[]) (z_to_string fuzzy))) :: []))
               else cat a (ok ('~'::[]))))
     | Literal ->
       if verbose
       then bind (str_v (S (S O)) l) (fun a -> Ret
              (cats
                ((ok (append (op_string op) ('('::[]))) :: (a :: ((ok
                                                                    (')'::[])) :: [])))))
       else (match l with
             | VStr x ->
               if contains_char ' ' x
               then Ret (ok (append ('"'::[]) (append x ('"'::[]))))
               else str_v (S O) l
             | _ -> str_v (S O) l)
     | Wild ->
       if verbose
       then bind (str_v (S (S O)) l) (fun a -> Ret
              (cats
                ((ok (append (op_string op) ('('::[]))) :: (a :: ((ok
                                                                    (')'::[])) :: [])))))
       else (match l with
             | VStr x ->
               if contains_char ' ' x
               then Ret (ok (append ('"'::[]) (append x ('"'::[]))))
               else str_v (S O) l
             | _ -> str_v (S O) l)
     | Regexp ->
       if verbose
       then bind (str_v (S (S O)) l) (fun a -> Ret
              (cats
                ((ok (append (op_string op) ('('::[]))) :: (a :: ((ok
                                                                    (')'::[])) :: [])))))
       else (match l with
             | VStr x ->
               if contains_char ' ' x
               then Ret (ok (append ('"'::[]) (append x ('"'::[]))))
               else str_v (S O) l
             | _ -> str_v (S O) l)
     | List ->
       (match l with
        | VList vals ->
          bind
            (let rec each = function
             | [] -> Ret []
             | x :: rest0 ->
               bind (str_v (if verbose then S (S O) else S O) (e_left x))
                 (fun a -> bind (each rest0) (fun b -> Ret (a :: b)))
             in each vals) (fun xs -> Ret
            (if verbose
             then cats
                    ((ok ('L'::('I'::('S'::('T'::('('::[])))))) :: ((joinf
                                                                    (','::(' '::[]))
                                                                    xs) :: (
                    (ok (')'::[])) :: [])))
             else cats
                    ((ok ('('::[])) :: ((joinf (','::(' '::[])) xs) :: (
                    (ok (')'::[])) :: [])))))
        | _ ->
          Panic
            ('r'::('e'::('n'::('d'::('e'::('r'::('L'::('i'::('s'::('t'::(':'::(' '::('e'::('.'::('L'::('e'::('f'::('t'::('.'::('('::('['::(']'::('*'::('E'::('x'::('p'::('r'::('e'::('s'::('s'::('i'::('o'::('n'::(')'::[])))))))))))))))))))))))))))))))))))
     | _ ->
       bind (str_v how l) (fun a ->
         bind (str_v how r) (fun b -> Ret
           (if verbose
            then cats
                   ((ok ('('::[])) :: (a :: ((ok
                                               (append (')'::(' '::[]))
                                                 (append (op_string op)
                                                   (' '::('('::[]))))) :: (b :: (
                   (ok (')'::[])) :: [])))))
            else cats
                   (a :: ((ok
                            (append (' '::[])
                              (append (op_string op) (' '::[])))) :: (b :: [])))))))
  and str_v how = function
  | VNil ->
    Ret
      (match how with
       | O ->
         badv
           ('%'::('!'::('s'::('('::('<'::('n'::('i'::('l'::('>'::(')'::[]))))))))))
       | S _ -> ok ('<'::('n'::('i'::('l'::('>'::[]))))))
  | VInt z0 ->
    Ret
      (match how with
       | O ->
         badv
           (append ('%'::('!'::('s'::('('::('i'::('n'::('t'::('='::[]))))))))
             (append (z_to_string z0) (')'::[])))
       | S _ -> ok (z_to_string z0))
  | VFloat f ->
    Ret
      (match how with
       | O ->
         badv
           (append
             ('%'::('!'::('s'::('('::('f'::('l'::('o'::('a'::('t'::('6'::('4'::('='::[]))))))))))))
             (append (o2.fmt_v f) (')'::[])))
       | S _ -> ok (o2.fmt_v f))
  | VStr s ->
    Ret
      (match how with
       | O -> ok s
       | S n1 ->
         (match n1 with
          | O -> ok s
          | S n2 -> (match n2 with
                     | O -> ok (o2.go_quote s)
                     | S _ -> ok s)))
  | VBool b ->
    Ret
      (match how with
       | O ->
         badv
           (append
             ('%'::('!'::('s'::('('::('b'::('o'::('o'::('l'::('='::[])))))))))
             (append (bool_str b) (')'::[])))
       | S _ -> ok (bool_str b))
  | VCol s ->
    Ret
      (match how with
       | O -> ok s
       | S n1 ->
         (match n1 with
          | O -> ok s
          | S n2 ->
            (match n2 with
             | O ->
               ok
                 (append ('C'::('O'::('L'::('U'::('M'::('N'::('('::[])))))))
                   (append s (')'::[])))
             | S _ -> ok s)))
  | VExp x -> str_e0 (vb how) x
  | VList l ->
    bind
      (let rec each = function
       | [] -> Ret []
       | x :: r ->
         bind (str_e0 (vb how) x) (fun a ->
           bind (each r) (fun b -> Ret (a :: b)))
       in each l) (fun xs -> Ret { txt =
      (append ('['::[]) (append (joinf (' '::[]) xs).txt (']'::[]))); bad =
      (joinf (' '::[]) xs).bad; opaque = (vb how) })
  | VBound (mn, mx, incl) ->
    bind (str_v how mn) (fun a ->
      bind (str_v how mx) (fun b -> Ret { txt =
        (append ('&'::('{'::[]))
          (append a.txt
            (append (' '::[])
              (append b.txt
                (append (' '::[]) (append (bool_str incl) ('}'::[])))))));
        bad = true; opaque = true }))
  in str_e0

type gerr = char list option

type sres = char list * gerr

(** val is_simple : value -> bool **)

let is_simple = function
| VBool _ -> false
| VExp e ->
  (match e_op e with
   | Undefined -> true
   | Literal -> true
   | Wild -> true
   | Regexp -> true
   | _ -> false)
| VList _ -> false
| VBound (_, _, _) -> false
| _ -> true

(** val no_wrap_op : operator -> bool **)

let no_wrap_op = function
| Not -> true
| Range -> true
| Must -> true
| MustNot -> true
| Literal -> true
| In -> true
| List -> true
| _ -> false

(** val fn_literal : oracle2 -> char list -> char list -> sres **)

let fn_literal o2 l _ =
  if negb (o2.valid_utf8 l)
  then ([], (Some
         ('l'::('i'::('t'::('e'::('r'::('a'::('l'::(' '::('c'::('o'::('n'::('t'::('a'::('i'::('n'::('s'::(' '::('i'::('n'::('v'::('a'::('l'::('i'::('d'::(' '::('u'::('t'::('f'::('8'::[])))))))))))))))))))))))))))))))
  else if contains_char (ascii_of_nat O) l
       then ([], (Some
              ('l'::('i'::('t'::('e'::('r'::('a'::('l'::(' '::('c'::('o'::('n'::('t'::('a'::('i'::('n'::('s'::(' '::('n'::('u'::('l'::('l'::(' '::('b'::('y'::('t'::('e'::[]))))))))))))))))))))))))))))
       else (l, None)

(** val fn_like : char list -> char list -> sres **)

let fn_like l r =
  let n1 = length0 r in
  if (&&) ((&&) (Nat.leb (S (S (S (S O)))) n1) (char_at_is r (S O) '/'))
       (char_at_is r (sub n1 (S (S O))) '/')
  then ((append l (append (' '::('~'::(' '::[]))) r)), None)
  else ((append l
          (append
            (' '::('S'::('I'::('M'::('I'::('L'::('A'::('R'::(' '::('T'::('O'::(' '::[]))))))))))))
            (replace_char '?' ('_'::[]) (replace_char '*' ('%'::[]) r)))),
         None)

(** val to_ints : char list -> char list -> (z * z) option **)

let to_ints a b =
  let star = '\''::('*'::('\''::[])) in
  (match atoi a with
   | Some x ->
     (match atoi b with
      | Some y -> Some (x, y)
      | None -> if eqb0 b star then Some (x, Z0) else None)
   | None ->
     (match atoi b with
      | Some y -> if eqb0 a star then Some (Z0, y) else None
      | None ->
        if (&&) (eqb0 a star) (eqb0 b star) then Some (Z0, Z0) else None))

(** val to_floats : oracle2 -> char list -> char list -> (z * z) option **)

let to_floats o2 a b =
  let star = '\''::('*'::('\''::[])) in
  (match o2.pfloat a with
   | Some x ->
     (match o2.pfloat b with
      | Some y -> Some (x, y)
      | None -> if eqb0 b star then Some (x, Z0) else None)
   | None ->
     (match o2.pfloat b with
      | Some y -> if eqb0 a star then Some (Z0, y) else None
      | None ->
        if (&&) (eqb0 a star) (eqb0 b star) then Some (Z0, Z0) else None))

(** val range_text :
    char list -> bool -> char list -> char list -> char list -> char list ->
    char list **)

let range_text left incl rawMin rawMax smin smax =
  let star = '\''::('*'::('\''::[])) in
  if eqb0 rawMin star
  then append left
         (append
           (if incl
            then ' '::('<'::('='::(' '::[])))
            else ' '::('<'::(' '::[]))) smax)
  else if eqb0 rawMax star
       then append left
              (append
                (if incl
                 then ' '::('>'::('='::(' '::[])))
                 else ' '::('>'::(' '::[]))) smin)
       else if incl
            then append left
                   (append (' '::('>'::('='::(' '::[]))))
                     (append smin
                       (append (' '::('A'::('N'::('D'::(' '::[])))))
                         (append left
                           (append (' '::('<'::('='::(' '::[])))) smax)))))
            else append left
                   (append (' '::('>'::(' '::[])))
                     (append smin
                       (append (' '::('A'::('N'::('D'::(' '::[])))))
                         (append left (append (' '::('<'::(' '::[]))) smax)))))

(** val last_is : char list -> char -> bool **)

let last_is s c =
  match last_char s with
  | Some x -> (=) x c
  | None -> false

(** val first_is : char list -> char -> bool **)

let first_is s c =
  match first_char s with
  | Some x -> (=) x c
  | None -> false

(** val strip_ends : char list -> char list **)

let strip_ends = function
| [] -> []
| _::r -> rev_str (match rev_str r [] with
                   | [] -> []
                   | _::q0 -> q0) []

(** val fn_rang_core :
    char list -> char list -> (bool -> char list -> char list -> sres out) ->
    sres out **)

let fn_rang_core _ right k =
  match length0 right with
  | O ->
    Panic
      ('r'::('a'::('n'::('g'::(':'::(' '::('r'::('i'::('g'::('h'::('t'::('['::('0'::(']'::[]))))))))))))))
  | S n1 ->
    (match n1 with
     | O ->
       Panic
         ('r'::('a'::('n'::('g'::(':'::(' '::('r'::('i'::('g'::('h'::('t'::('['::('1'::(':'::('l'::('e'::('n'::('-'::('1'::(']'::[]))))))))))))))))))))
     | S _ ->
       let incl = negb ((&&) (first_is right '(') (last_is right ')')) in
       (match split_comma (strip_ends right) [] with
        | [] ->
          Ret ([], (Some
            ('t'::('h'::('e'::(' '::('B'::('E'::('T'::('W'::('E'::('E'::('N'::(' '::('o'::('p'::('e'::('r'::('a'::('t'::('o'::('r'::(' '::('n'::('e'::('e'::('d'::('s'::(' '::('a'::(' '::('t'::('w'::('o'::(' '::('i'::('t'::('e'::('m'::(' '::('l'::('i'::('s'::('t'::[]))))))))))))))))))))))))))))))))))))))))))))
        | a :: l ->
          (match l with
           | [] ->
             Ret ([], (Some
               ('t'::('h'::('e'::(' '::('B'::('E'::('T'::('W'::('E'::('E'::('N'::(' '::('o'::('p'::('e'::('r'::('a'::('t'::('o'::('r'::(' '::('n'::('e'::('e'::('d'::('s'::(' '::('a'::(' '::('t'::('w'::('o'::(' '::('i'::('t'::('e'::('m'::(' '::('l'::('i'::('s'::('t'::[]))))))))))))))))))))))))))))))))))))))))))))
           | b :: l0 ->
             (match l0 with
              | [] -> k incl (trim a) (trim b)
              | _ :: _ ->
                Ret ([], (Some
                  ('t'::('h'::('e'::(' '::('B'::('E'::('T'::('W'::('E'::('E'::('N'::(' '::('o'::('p'::('e'::('r'::('a'::('t'::('o'::('r'::(' '::('n'::('e'::('e'::('d'::('s'::(' '::('a'::(' '::('t'::('w'::('o'::(' '::('i'::('t'::('e'::('m'::(' '::('l'::('i'::('s'::('t'::[]))))))))))))))))))))))))))))))))))))))))))))))))

(** val rang_by_text :
    oracle2 -> char list -> bool -> char list -> char list -> sres **)

let rang_by_text o2 left incl rawMin rawMax =
  match to_ints rawMin rawMax with
  | Some p ->
    let (i, j) = p in
    ((range_text left incl rawMin rawMax (z_to_string i) (z_to_string j)),
    None)
  | None ->
    (match to_floats o2 rawMin rawMax with
     | Some p ->
       let (f, g) = p in
       ((range_text left incl rawMin rawMax (o2.fmt_2f f) (o2.fmt_2f g)),
       None)
     | None ->
       ((append left
          (append
            (' '::('B'::('E'::('T'::('W'::('E'::('E'::('N'::(' '::[])))))))))
            (append rawMin
              (append (' '::('A'::('N'::('D'::(' '::[]))))) rawMax)))), None))

(** val fn_rang : oracle2 -> char list -> char list -> sres out **)

let fn_rang o2 left right =
  fn_rang_core left right (fun incl a b -> Ret
    (rang_by_text o2 left incl a b))

(** val fn_rang_param :
    oracle2 -> char list -> char list -> value list -> sres out **)

let fn_rang_param o2 left right params =
  fn_rang_core left right (fun incl a b ->
    if (||) (eqb0 a ('?'::[])) (eqb0 b ('?'::[]))
    then (match params with
          | [] ->
            Panic
              ('r'::('a'::('n'::('g'::('P'::('a'::('r'::('a'::('m'::(':'::(' '::('p'::('a'::('r'::('a'::('m'::('s'::('['::('0'::(']'::[]))))))))))))))))))))
          | p :: _ ->
            (match p with
             | VInt _ -> Ret ((range_text left incl a b a b), None)
             | VFloat _ -> Ret ((range_text left incl a b a b), None)
             | _ ->
               Ret
                 ((append left
                    (append
                      (' '::('B'::('E'::('T'::('W'::('E'::('E'::('N'::(' '::[])))))))))
                      (append a
                        (append (' '::('A'::('N'::('D'::(' '::[]))))) b)))),
                 None)))
    else Ret (rang_by_text o2 left incl a b))

(** val pg_fn :
    oracle2 -> operator -> (char list -> char list -> sres out) option **)

let pg_fn o2 op =
  let pure = fun f -> Some (fun l r -> Ret (f l r)) in
  (match op with
   | Undefined -> None
   | And ->
     pure (fun l r ->
       ((append l (append (' '::('A'::('N'::('D'::(' '::[]))))) r)), None))
   | Or ->
     pure (fun l r -> ((append l (append (' '::('O'::('R'::(' '::[])))) r)),
       None))
   | Equals ->
     pure (fun l r -> ((append l (append (' '::('='::(' '::[]))) r)), None))
   | Like -> pure fn_like
   | Not ->
     pure (fun l _ ->
       ((append ('N'::('O'::('T'::('('::[])))) (append l (')'::[]))), None))
   | Range -> Some (fn_rang o2)
   | Must -> pure (fun l _ -> (l, None))
   | MustNot ->
     pure (fun l _ ->
       ((append ('N'::('O'::('T'::('('::[])))) (append l (')'::[]))), None))
   | Boost -> None
   | Fuzzy -> None
   | Greater ->
     pure (fun l r -> ((append l (append (' '::('>'::(' '::[]))) r)), None))
   | Less ->
     pure (fun l r -> ((append l (append (' '::('<'::(' '::[]))) r)), None))
   | GreaterEq ->
     pure (fun l r -> ((append l (append (' '::('>'::('='::(' '::[])))) r)),
       None))
   | LessEq ->
     pure (fun l r -> ((append l (append (' '::('<'::('='::(' '::[])))) r)),
       None))
   | In ->
     pure (fun l r -> ((append l (append (' '::('I'::('N'::(' '::[])))) r)),
       None))
   | List -> pure (fun l _ -> ((append ('('::[]) (append l (')'::[]))), None))
   | _ -> pure (fn_literal o2))

(** val ser_column : char list -> sres **)

let ser_column v =
  if eqb0 v []
  then ([], (Some
         ('c'::('o'::('l'::('u'::('m'::('n'::(' '::('n'::('a'::('m'::('e'::(' '::('i'::('s'::(' '::('e'::('m'::('p'::('t'::('y'::[]))))))))))))))))))))))
  else if contains_char '"' v
       then ([], (Some
              ('c'::('o'::('l'::('u'::('m'::('n'::(' '::('n'::('a'::('m'::('e'::(' '::('c'::('o'::('n'::('t'::('a'::('i'::('n'::('s'::(' '::('a'::(' '::('d'::('o'::('u'::('b'::('l'::('e'::(' '::('q'::('u'::('o'::('t'::('e'::[])))))))))))))))))))))))))))))))))))))
       else ((append ('"'::[]) (append v ('"'::[]))), None)

(** val wrap_if : bool -> char list -> char list **)

let wrap_if b s =
  if b then append ('('::[]) (append s (')'::[])) else s

(** val render : oracle2 -> expr -> sres out **)

let render o2 =
  let rec render0 = function
  | E (l, op, r, _, _) ->
    bind (serialize l) (fun ls ->
      let (lf, g) = ls in
      (match g with
       | Some er -> Ret ([], (Some er))
       | None ->
         bind (serialize r) (fun rs_ ->
           let (rt, g0) = rs_ in
           (match g0 with
            | Some er -> Ret ([], (Some er))
            | None ->
              let lf0 =
                wrap_if ((&&) (negb (no_wrap_op op)) (negb (is_simple l))) lf
              in
              let rt0 =
                wrap_if ((&&) (negb (no_wrap_op op)) (negb (is_simple r))) rt
              in
              (match pg_fn o2 op with
               | Some fn -> fn lf0 rt0
               | None ->
                 Ret ([], (Some
                   ('u'::('n'::('a'::('b'::('l'::('e'::(' '::('t'::('o'::(' '::('r'::('e'::('n'::('d'::('e'::('r'::(' '::('o'::('p'::('e'::('r'::('a'::('t'::('o'::('r'::[]))))))))))))))))))))))))))))))))
  and serialize = function
  | VNil -> Ret ([], None)
  | VInt z0 -> Ret ((z_to_string z0), None)
  | VFloat f -> Ret ((o2.fmt_v f), None)
  | VStr s ->
    Ret
      ((append ('\''::[])
         (append (replace_char '\'' ('\''::('\''::[])) s) ('\''::[]))), None)
  | VBool b -> Ret ((bool_str b), None)
  | VCol c -> Ret (ser_column c)
  | VExp e -> render0 e
  | VList l ->
    let rec each l0 acc =
      match l0 with
      | [] -> Ret ((join (','::(' '::[])) (rev acc)), None)
      | x :: rest0 ->
        bind (render0 x) (fun s ->
          let (s', g) = s in
          (match g with
           | Some er -> Ret (s', (Some er))
           | None -> each rest0 (s' :: acc)))
    in each l []
  | VBound (mn, mx, incl) ->
    bind (serialize mn) (fun a ->
      let (smin, g) = a in
      (match g with
       | Some er -> Ret ([], (Some er))
       | None ->
         bind (serialize mx) (fun b ->
           let (smax, g0) = b in
           (match g0 with
            | Some er -> Ret ([], (Some er))
            | None ->
              Ret
                ((if incl
                  then append ('['::[])
                         (append smin
                           (append (','::(' '::[])) (append smax (']'::[]))))
                  else append ('('::[])
                         (append smin
                           (append (','::(' '::[])) (append smax (')'::[]))))),
                None)))))
  in render0

type pres = (char list * value list) * gerr

(** val is_regex_text : char list -> bool **)

let is_regex_text s =
  (&&) ((&&) (Nat.leb (S (S O)) (length0 s)) (first_is s '/')) (last_is s '/')

(** val render_param : oracle2 -> expr -> pres out **)

let render_param o2 =
  let rec render_param0 = function
  | E (l, op, r, _, _) ->
    bind (ser_param l) (fun ls ->
      let (p, g) = ls in
      let (lf, lparams) = p in
      (match g with
       | Some er -> Ret (([], []), (Some er))
       | None ->
         bind (ser_param r) (fun rs_ ->
           let (p0, g0) = rs_ in
           let (rt, rparams) = p0 in
           (match g0 with
            | Some er -> Ret (([], []), (Some er))
            | None ->
              let fixup =
                match op with
                | Undefined -> Ret (rt, rparams)
                | And -> Ret (rt, rparams)
                | Or -> Ret (rt, rparams)
                | Equals -> Ret (rt, rparams)
                | Like ->
                  (match rparams with
                   | [] ->
                     if eqb0 rt ('\''::('*'::('\''::[])))
                     then let rt0 = '?'::[] in
                          let rparams0 = (VStr ('*'::[])) :: [] in
                          (match rparams0 with
                           | [] ->
                             Panic
                               ('R'::('e'::('n'::('d'::('e'::('r'::('P'::('a'::('r'::('a'::('m'::(':'::(' '::('r'::('p'::('a'::('r'::('a'::('m'::('s'::('['::('0'::(']'::[])))))))))))))))))))))))
                           | v :: rest0 ->
                             (match v with
                              | VStr rval0 ->
                                if is_regex_text rval0
                                then Ret (rt0, rparams0)
                                else Ret (rt0, ((VStr
                                       (replace_char '?' ('_'::[])
                                         (replace_char '*' ('%'::[]) rval0))) :: rest0))
                              | _ ->
                                Panic
                                  ('R'::('e'::('n'::('d'::('e'::('r'::('P'::('a'::('r'::('a'::('m'::(':'::(' '::('r'::('p'::('a'::('r'::('a'::('m'::('s'::('['::('0'::(']'::('.'::('('::('s'::('t'::('r'::('i'::('n'::('g'::(')'::[]))))))))))))))))))))))))))))))))))
                     else (match rparams with
                           | [] ->
                             Panic
                               ('R'::('e'::('n'::('d'::('e'::('r'::('P'::('a'::('r'::('a'::('m'::(':'::(' '::('r'::('p'::('a'::('r'::('a'::('m'::('s'::('['::('0'::(']'::[])))))))))))))))))))))))
                           | v :: rest0 ->
                             (match v with
                              | VStr rval0 ->
                                if is_regex_text rval0
                                then Ret (rt, rparams)
                                else Ret (rt, ((VStr
                                       (replace_char '?' ('_'::[])
                                         (replace_char '*' ('%'::[]) rval0))) :: rest0))
                              | _ ->
                                Panic
                                  ('R'::('e'::('n'::('d'::('e'::('r'::('P'::('a'::('r'::('a'::('m'::(':'::(' '::('r'::('p'::('a'::('r'::('a'::('m'::('s'::('['::('0'::(']'::('.'::('('::('s'::('t'::('r'::('i'::('n'::('g'::(')'::[]))))))))))))))))))))))))))))))))))
                   | _ :: _ ->
                     (match rparams with
                      | [] ->
                        Panic
                          ('R'::('e'::('n'::('d'::('e'::('r'::('P'::('a'::('r'::('a'::('m'::(':'::(' '::('r'::('p'::('a'::('r'::('a'::('m'::('s'::('['::('0'::(']'::[])))))))))))))))))))))))
                      | v :: rest0 ->
                        (match v with
                         | VStr rval0 ->
                           if is_regex_text rval0
                           then Ret (rt, rparams)
                           else Ret (rt, ((VStr
                                  (replace_char '?' ('_'::[])
                                    (replace_char '*' ('%'::[]) rval0))) :: rest0))
                         | _ ->
                           Panic
                             ('R'::('e'::('n'::('d'::('e'::('r'::('P'::('a'::('r'::('a'::('m'::(':'::(' '::('r'::('p'::('a'::('r'::('a'::('m'::('s'::('['::('0'::(']'::('.'::('('::('s'::('t'::('r'::('i'::('n'::('g'::(')'::[])))))))))))))))))))))))))))))))))))
                | _ -> Ret (rt, rparams)
              in
              bind fixup (fun fx ->
                let (rt0, rparams0) = fx in
                let params = app lparams rparams0 in
                let lf0 =
                  wrap_if ((&&) (negb (no_wrap_op op)) (negb (is_simple l)))
                    lf
                in
                let rt1 =
                  wrap_if ((&&) (negb (no_wrap_op op)) (negb (is_simple r)))
                    rt0
                in
                (match op with
                 | Like ->
                   (match rparams0 with
                    | [] ->
                      Ret
                        (((append lf0
                            (append
                              (' '::('S'::('I'::('M'::('I'::('L'::('A'::('R'::(' '::('T'::('O'::(' '::[]))))))))))))
                              rt1)), params), None)
                    | v :: l0 ->
                      (match v with
                       | VStr p1 ->
                         (match l0 with
                          | [] ->
                            Ret
                              (((if is_regex_text p1
                                 then append lf0
                                        (append (' '::('~'::(' '::[]))) rt1)
                                 else append lf0
                                        (append
                                          (' '::('S'::('I'::('M'::('I'::('L'::('A'::('R'::(' '::('T'::('O'::(' '::[]))))))))))))
                                          rt1)), params), None)
                          | _ :: _ ->
                            Ret
                              (((append lf0
                                  (append
                                    (' '::('S'::('I'::('M'::('I'::('L'::('A'::('R'::(' '::('T'::('O'::(' '::[]))))))))))))
                                    rt1)), params), None))
                       | VList _ ->
                         (match l0 with
                          | [] ->
                            Panic
                              ('l'::('i'::('k'::('e'::('P'::('a'::('r'::('a'::('m'::(':'::(' '::('p'::('a'::('r'::('a'::('m'::('s'::('['::('0'::(']'::('.'::('('::('s'::('t'::('r'::('i'::('n'::('g'::(')'::[])))))))))))))))))))))))))))))
                          | _ :: _ ->
                            Ret
                              (((append lf0
                                  (append
                                    (' '::('S'::('I'::('M'::('I'::('L'::('A'::('R'::(' '::('T'::('O'::(' '::[]))))))))))))
                                    rt1)), params), None))
                       | _ ->
                         (match l0 with
                          | [] ->
                            Panic
                              ('l'::('i'::('k'::('e'::('P'::('a'::('r'::('a'::('m'::(':'::(' '::('p'::('a'::('r'::('a'::('m'::('s'::('['::('0'::(']'::('.'::('('::('s'::('t'::('r'::('i'::('n'::('g'::(')'::[])))))))))))))))))))))))))))))
                          | _ :: _ ->
                            Ret
                              (((append lf0
                                  (append
                                    (' '::('S'::('I'::('M'::('I'::('L'::('A'::('R'::(' '::('T'::('O'::(' '::[]))))))))))))
                                    rt1)), params), None))))
                 | Range ->
                   bind (fn_rang_param o2 lf0 rt1 rparams0) (fun x -> Ret
                     (((fst x), params), (snd x)))
                 | _ ->
                   (match pg_fn o2 op with
                    | Some fn ->
                      bind (fn lf0 rt1) (fun x -> Ret (((fst x), params),
                        (snd x)))
                    | None ->
                      Ret (([], params), (Some
                        ('u'::('n'::('a'::('b'::('l'::('e'::(' '::('t'::('o'::(' '::('r'::('e'::('n'::('d'::('e'::('r'::(' '::('o'::('p'::('e'::('r'::('a'::('t'::('o'::('r'::[]))))))))))))))))))))))))))))))))))
  and ser_param v = match v with
  | VNil -> Ret (([], []), None)
  | VStr s ->
    if eqb0 s ('*'::[])
    then Ret ((('\''::('*'::('\''::[]))), []), None)
    else Ret ((('?'::[]), (v :: [])), None)
  | VCol c -> let (s, er) = ser_column c in Ret ((s, []), er)
  | VExp e -> render_param0 e
  | VList l ->
    let rec each l0 acc ps =
      match l0 with
      | [] -> Ret (((join (','::(' '::[])) (rev acc)), ps), None)
      | x :: rest0 ->
        bind (render_param0 x) (fun s ->
          let (p, g) = s in
          let (s', eps) = p in
          (match g with
           | Some er -> Ret ((s', ps), (Some er))
           | None -> each rest0 (s' :: acc) (app ps eps)))
    in each l [] []
  | VBound (mn, mx, incl) ->
    bind (ser_param mn) (fun a ->
      let (p, g) = a in
      let (smin, pmin) = p in
      (match g with
       | Some er -> Ret (([], []), (Some er))
       | None ->
         bind (ser_param mx) (fun b ->
           let (p0, g0) = b in
           let (smax, pmax) = p0 in
           (match g0 with
            | Some er -> Ret (([], []), (Some er))
            | None ->
              Ret
                (((if incl
                   then append ('['::[])
                          (append smin
                            (append (','::(' '::[])) (append smax (']'::[]))))
                   else append ('('::[])
                          (append smin
                            (append (','::(' '::[])) (append smax (')'::[]))))),
                (app pmin pmax)), None)))))
  | _ -> Ret ((('?'::[]), (v :: [])), None)
  in render_param0

(** val is_leaf : operator -> bool **)

let is_leaf = function
| Literal -> true
| Wild -> true
| Regexp -> true
| _ -> false

(** val marshal_e : oracle2 -> expr -> char list option out **)

let marshal_e o2 =
  let rec marshal_e0 = function
  | E (l, op, r, boost, fuzzy) ->
    if is_leaf op
    then marshal_v l
    else bind (marshal_v l) (fun lr ->
           match lr with
           | Some lraw ->
             bind (match r with
                   | VNil -> Ret (Some [])
                   | _ -> marshal_v r) (fun rr ->
               match rr with
               | Some rraw ->
                 if Z.eqb boost one_bits
                 then let power = [] in
                      Ret (Some
                      (append
                        ('{'::('"'::('l'::('e'::('f'::('t'::('"'::(':'::[]))))))))
                        (append lraw
                          (append
                            (','::('"'::('o'::('p'::('e'::('r'::('a'::('t'::('o'::('r'::('"'::(':'::('"'::[])))))))))))))
                            (append (op_string op)
                              (append ('"'::[])
                                (append
                                  (match r with
                                   | VNil -> []
                                   | _ ->
                                     append
                                       (','::('"'::('r'::('i'::('g'::('h'::('t'::('"'::(':'::[])))))))))
                                       rraw)
                                  (append
                                    (if Z.eqb fuzzy (Zpos XH)
                                     then []
                                     else append
                                            (','::('"'::('d'::('i'::('s'::('t'::('a'::('n'::('c'::('e'::('"'::(':'::[]))))))))))))
                                            (z_to_string fuzzy))
                                    (append power ('}'::[]))))))))))
                 else (match o2.json_num boost with
                       | Some p ->
                         let power =
                           append
                             (','::('"'::('p'::('o'::('w'::('e'::('r'::('"'::(':'::[])))))))))
                             p
                         in
                         Ret (Some
                         (append
                           ('{'::('"'::('l'::('e'::('f'::('t'::('"'::(':'::[]))))))))
                           (append lraw
                             (append
                               (','::('"'::('o'::('p'::('e'::('r'::('a'::('t'::('o'::('r'::('"'::(':'::('"'::[])))))))))))))
                               (append (op_string op)
                                 (append ('"'::[])
                                   (append
                                     (match r with
                                      | VNil -> []
                                      | _ ->
                                        append
                                          (','::('"'::('r'::('i'::('g'::('h'::('t'::('"'::(':'::[])))))))))
                                          rraw)
                                     (append
                                       (if Z.eqb fuzzy (Zpos XH)
                                        then []
                                        else append
                                               (','::('"'::('d'::('i'::('s'::('t'::('a'::('n'::('c'::('e'::('"'::(':'::[]))))))))))))
                                               (z_to_string fuzzy))
                                       (append power ('}'::[]))))))))))
                       | None -> Ret None)
               | None -> Ret None)
           | None -> Ret None)
  and marshal_v = function
  | VNil -> Ret (Some ('n'::('u'::('l'::('l'::[])))))
  | VInt z0 -> Ret (Some (z_to_string z0))
  | VFloat f -> Ret (o2.json_num f)
  | VStr s -> Ret (Some (o2.json_str s))
  | VBool b -> Ret (Some (bool_str b))
  | VCol s -> Ret (Some (o2.json_str s))
  | VExp e -> marshal_e0 e
  | VList l ->
    let rec each l0 acc =
      match l0 with
      | [] ->
        Ret (Some
          (append ('['::[]) (append (join (','::[]) (rev acc)) (']'::[]))))
      | x :: rest0 ->
        bind (marshal_e0 x) (fun s ->
          match s with
          | Some s' -> each rest0 (s' :: acc)
          | None -> Ret None)
    in each l []
  | VBound (mn, mx, incl) ->
    bind (marshal_v mn) (fun a ->
      match a with
      | Some sa ->
        bind (marshal_v mx) (fun b ->
          match b with
          | Some sb ->
            Ret (Some
              (append ('{'::('"'::('m'::('i'::('n'::('"'::(':'::[])))))))
                (append sa
                  (append (','::('"'::('m'::('a'::('x'::('"'::(':'::[])))))))
                    (append sb
                      (append
                        (','::('"'::('i'::('n'::('c'::('l'::('u'::('s'::('i'::('v'::('e'::('"'::(':'::[])))))))))))))
                        (append (bool_str incl) ('}'::[]))))))))
          | None -> Ret None)
      | None -> Ret None)
  in marshal_e0

type jv =
| JNull
| JTrue
| JFalse
| JNum of char list
| JStr of char list * char list
| JArr of jv list
| JObj of ((char list * char list) * jv) list

(** val jraw : jv -> char list **)

let rec jraw = function
| JNull -> 'n'::('u'::('l'::('l'::[])))
| JTrue -> 't'::('r'::('u'::('e'::[])))
| JFalse -> 'f'::('a'::('l'::('s'::('e'::[]))))
| JNum r -> r
| JStr (r, _) -> r
| JArr l -> append ('['::[]) (append (join (','::[]) (map jraw l)) (']'::[]))
| JObj l ->
  append ('{'::[])
    (append
      (join (','::[])
        (map (fun pat ->
          let (y, x) = pat in
          let (rk, _) = y in append rk (append (':'::[]) (jraw x))) l))
      ('}'::[]))

(** val lower_ascii : char -> char **)

let lower_ascii c =
  let n1 = nat_of_ascii c in
  if (&&)
       (Nat.leb (S (S (S (S (S (S (S (S (S (S (S (S (S (S (S (S (S (S (S (S
         (S (S (S (S (S (S (S (S (S (S (S (S (S (S (S (S (S (S (S (S (S (S (S
         (S (S (S (S (S (S (S (S (S (S (S (S (S (S (S (S (S (S (S (S (S (S
         O)))))))))))))))))))))))))))))))))))))))))))))))))))))))))))))))))
         n1)
       (Nat.leb n1 (S (S (S (S (S (S (S (S (S (S (S (S (S (S (S (S (S (S (S
         (S (S (S (S (S (S (S (S (S (S (S (S (S (S (S (S (S (S (S (S (S (S (S
         (S (S (S (S (S (S (S (S (S (S (S (S (S (S (S (S (S (S (S (S (S (S (S
         (S (S (S (S (S (S (S (S (S (S (S (S (S (S (S (S (S (S (S (S (S (S (S
         (S (S
         O)))))))))))))))))))))))))))))))))))))))))))))))))))))))))))))))))))))))))))))))))))))))))))
  then ascii_of_nat
         (add n1 (S (S (S (S (S (S (S (S (S (S (S (S (S (S (S (S (S (S (S (S
           (S (S (S (S (S (S (S (S (S (S (S (S
           O)))))))))))))))))))))))))))))))))
  else c

(** val lower : char list -> char list **)

let rec lower = function
| [] -> []
| c::r -> (lower_ascii c)::(lower r)

(** val substr_at : char list -> char list -> bool **)

let rec substr_at p s =
  match p with
  | [] -> true
  | a::p' ->
    (match s with
     | [] -> false
     | b::s' -> (&&) ((=) a b) (substr_at p' s'))

(** val contains : char list -> char list -> bool **)

let rec contains p s =
  (||) (substr_at p s) (match s with
                        | [] -> false
                        | _::r -> contains p r)

(** val is_ws : char -> bool **)

let is_ws c =
  let n1 = nat_of_ascii c in
  (||)
    ((||)
      ((||)
        ((||)
          ((||)
            (Nat.eqb n1 (S (S (S (S (S (S (S (S (S (S (S (S (S (S (S (S (S (S
              (S (S (S (S (S (S (S (S (S (S (S (S (S (S
              O)))))))))))))))))))))))))))))))))
            (Nat.eqb n1 (S (S (S (S (S (S (S (S (S O)))))))))))
          (Nat.eqb n1 (S (S (S (S (S (S (S (S (S (S O))))))))))))
        (Nat.eqb n1 (S (S (S (S (S (S (S (S (S (S (S (S (S O)))))))))))))))
      (Nat.eqb n1 (S (S (S (S (S (S (S (S (S (S (S O)))))))))))))
    (Nat.eqb n1 (S (S (S (S (S (S (S (S (S (S (S (S O)))))))))))))

(** val strip_ws : char list -> char list **)

let rec strip_ws = function
| [] -> []
| c::r -> if is_ws c then strip_ws r else c::(strip_ws r)

(** val looks_like_boundary : jv -> bool **)

let looks_like_boundary v =
  let s = strip_ws (jraw v) in
  (&&)
    ((&&) (contains ('"'::('m'::('i'::('n'::('"'::(':'::[])))))) s)
      (contains ('"'::('m'::('a'::('x'::('"'::(':'::[])))))) s))
    (negb (contains ('"'::('l'::('e'::('f'::('t'::('"'::(':'::[]))))))) s))

(** val op_of_string : char list -> operator **)

let op_of_string s =
  let tbl =
    And :: (Or :: (Equals :: (Like :: (Not :: (Range :: (Must :: (MustNot :: (Boost :: (Fuzzy :: (Literal :: (Wild :: (Regexp :: (Greater :: (Less :: (GreaterEq :: (LessEq :: (In :: (List :: []))))))))))))))))))
  in
  (match find (fun op -> eqb0 (op_string op) s) tbl with
   | Some op -> op
   | None -> Undefined)

type dres =
| DOk of expr
| DErr
| DPanic of char list

(** val unmarshal_literal : oracle -> jv -> dres **)

let unmarshal_literal o v =
  match atoi (jraw v) with
  | Some i -> DOk (lit (VInt i))
  | None ->
    (match o.parse_float (jraw v) with
     | Some f -> DOk (lit (VFloat f))
     | None ->
       (match v with
        | JNull -> DOk (literal_to_expr (VStr []))
        | JStr (_, d) -> DOk (literal_to_expr (VStr d))
        | _ -> DErr))

(** val bindings :
    char list -> ((char list * char list) * jv) list -> jv list **)

let rec bindings k = function
| [] -> []
| p :: r ->
  let (p0, v) = p in
  let (_, dk) = p0 in
  if eqb0 (lower dk) k then v :: (bindings k r) else bindings k r

(** val fold_field :
    ('a1 -> jv -> 'a1 option) -> 'a1 -> jv list -> 'a1 option **)

let fold_field step0 init vs =
  fold_left (fun acc v -> match acc with
                          | Some a -> step0 a v
                          | None -> None) vs (Some init)

(** val dec_int : jv list -> z option option **)

let dec_int vs =
  fold_field (fun _ v ->
    match v with
    | JNull -> Some None
    | JNum r -> (match atoi r with
                 | Some z0 -> Some (Some z0)
                 | None -> None)
    | _ -> None) None vs

(** val dec_float : oracle -> jv list -> z option option **)

let dec_float o vs =
  fold_field (fun _ v ->
    match v with
    | JNull -> Some None
    | JNum r ->
      (match o.parse_float r with
       | Some f -> if o.is_nan_or_inf f then None else Some (Some f)
       | None -> None)
    | _ -> None) None vs

(** val dec_string : jv list -> char list option **)

let dec_string vs =
  fold_field (fun a v ->
    match v with
    | JNull -> Some a
    | JStr (_, d) -> Some d
    | _ -> None) [] vs

(** val dec_bool : jv list -> bool option **)

let dec_bool vs =
  fold_field (fun a v ->
    match v with
    | JNull -> Some a
    | JTrue -> Some true
    | JFalse -> Some false
    | _ -> None) false vs

(** val dec_raw : jv list -> jv option **)

let dec_raw vs =
  last (map (fun x -> Some x) vs) None

(** val dec_boundaries_ok : jv list -> bool **)

let dec_boundaries_ok vs =
  forallb (fun v ->
    match v with
    | JNull -> true
    | JObj l ->
      (match dec_bool
               (bindings
                 ('i'::('n'::('c'::('l'::('u'::('s'::('i'::('v'::('e'::[])))))))))
                 l) with
       | Some _ -> true
       | None -> false)
    | _ -> false) vs

(** val lift : (jv -> dres) -> jv -> (value option, char list) sum **)

let lift um x =
  match um x with
  | DOk e -> Inl (Some (VExp e))
  | DErr -> Inl None
  | DPanic s -> Inr s

(** val left_list :
    oracle -> jv list -> expr list -> (value option, char list) sum **)

let rec left_list o xs acc =
  match xs with
  | [] -> Inl (Some (VList (rev acc)))
  | x :: r ->
    (match unmarshal_literal o x with
     | DOk e -> left_list o r (e :: acc)
     | DErr -> Inl None
     | DPanic s -> Inr s)

(** val dec_left :
    oracle -> (jv -> dres) -> jv option -> (value option, char list) sum **)

let dec_left o um = function
| Some x -> (match x with
             | JArr xs -> left_list o xs []
             | _ -> lift um x)
| None -> Inl None

(** val bound_step :
    (jv -> dres) -> (value option, char list) sum -> jv -> (value option,
    char list) sum **)

let bound_step um acc x =
  match acc with
  | Inl o0 ->
    (match o0 with
     | Some _ -> (match x with
                  | JNull -> Inl (Some VNil)
                  | _ -> lift um x)
     | None -> acc)
  | Inr _ -> acc

(** val dec_bound :
    (jv -> dres) -> jv list -> (value option, char list) sum **)

let dec_bound um vs =
  fold_left (bound_step um) vs (Inl (Some VNil))

(** val dec_right :
    (jv -> dres) -> jv option -> (value option, char list) sum **)

let dec_right um = function
| Some r ->
  if looks_like_boundary r
  then (match r with
        | JObj rl ->
          (match dec_bound um (bindings ('m'::('i'::('n'::[]))) rl) with
           | Inl o0 ->
             (match o0 with
              | Some mn ->
                (match dec_bound um (bindings ('m'::('a'::('x'::[]))) rl) with
                 | Inl o1 ->
                   (match o1 with
                    | Some mx ->
                      (match dec_bool
                               (bindings
                                 ('i'::('n'::('c'::('l'::('u'::('s'::('i'::('v'::('e'::[])))))))))
                                 rl) with
                       | Some incl -> Inl (Some (VBound (mn, mx, incl)))
                       | None -> Inl None)
                    | None -> Inl None)
                 | Inr s -> Inr s)
              | None ->
                (match dec_bound um (bindings ('m'::('a'::('x'::[]))) rl) with
                 | Inl _ -> Inl None
                 | Inr s -> Inr s))
           | Inr s -> Inr s)
        | _ -> Inl None)
  else lift um r
| None -> Inl (Some VNil)

(** val um_obj :
    oracle -> (jv -> dres) -> ((char list * char list) * jv) list -> dres **)

let um_obj o um l =
  match dec_string
          (bindings
            ('o'::('p'::('e'::('r'::('a'::('t'::('o'::('r'::[])))))))) l) with
  | Some opname ->
    (match dec_int
             (bindings
               ('d'::('i'::('s'::('t'::('a'::('n'::('c'::('e'::[])))))))) l) with
     | Some dist ->
       (match dec_float o (bindings ('p'::('o'::('w'::('e'::('r'::[]))))) l) with
        | Some pow0 ->
          if dec_boundaries_ok
               (bindings
                 ('b'::('o'::('u'::('n'::('d'::('a'::('r'::('i'::('e'::('s'::[]))))))))))
                 l)
          then let op = op_of_string opname in
               (match dec_left o um
                        (dec_raw (bindings ('l'::('e'::('f'::('t'::[])))) l)) with
                | Inl o0 ->
                  (match o0 with
                   | Some lv ->
                     let lv0 =
                       if (&&) (is_stringlike lv) (operates_on_column op)
                       then wrap_in_column lv
                       else lv
                     in
                     (match dec_right um
                              (dec_raw
                                (bindings
                                  ('r'::('i'::('g'::('h'::('t'::[]))))) l)) with
                      | Inl o1 ->
                        (match o1 with
                         | Some rv ->
                           let fz =
                             match op with
                             | Fuzzy ->
                               (match dist with
                                | Some d -> d
                                | None -> Zpos XH)
                             | _ -> Zpos XH
                           in
                           let bp =
                             match op with
                             | Boost ->
                               (match pow0 with
                                | Some p -> p
                                | None -> one_bits)
                             | _ -> one_bits
                           in
                           DOk (E (lv0, op, rv, bp, fz))
                         | None -> DErr)
                      | Inr s -> DPanic s)
                   | None -> DErr)
                | Inr s -> DPanic s)
          else DErr
        | None -> DErr)
     | None -> DErr)
  | None -> DErr

(** val unmarshal : oracle -> nat -> jv -> dres **)

let rec unmarshal o fuel v =
  match fuel with
  | O -> DErr
  | S f ->
    (match v with
     | JObj l -> um_obj o (unmarshal o f) l
     | _ -> unmarshal_literal o v)

(** val jsize : jv -> nat **)

let rec jsize = function
| JArr l -> S (fold_right (fun x a -> add (jsize x) a) O l)
| JObj l ->
  S (fold_right (fun pat a -> let (_, x) = pat in add (jsize x) a) O l)
| _ -> S O

(** val decode : oracle -> jv -> dres **)

let decode o v =
  unmarshal o (S (jsize v)) v

(** val render_with :
    oracle2 -> (operator -> (char list -> char list -> sres out) option) ->
    expr -> sres out **)

let render_with o2 fns =
  let rec render_with0 = function
  | E (l, op, r, _, _) ->
    bind (serialize_with l) (fun ls ->
      let (lf, g) = ls in
      (match g with
       | Some er -> Ret ([], (Some er))
       | None ->
         bind (serialize_with r) (fun rs_ ->
           let (rt, g0) = rs_ in
           (match g0 with
            | Some er -> Ret ([], (Some er))
            | None ->
              let lf0 =
                wrap_if ((&&) (negb (no_wrap_op op)) (negb (is_simple l))) lf
              in
              let rt0 =
                wrap_if ((&&) (negb (no_wrap_op op)) (negb (is_simple r))) rt
              in
              (match fns op with
               | Some fn -> fn lf0 rt0
               | None ->
                 Ret ([], (Some
                   ('u'::('n'::('a'::('b'::('l'::('e'::(' '::('t'::('o'::(' '::('r'::('e'::('n'::('d'::('e'::('r'::(' '::('o'::('p'::('e'::('r'::('a'::('t'::('o'::('r'::[]))))))))))))))))))))))))))))))))
  and serialize_with = function
  | VNil -> Ret ([], None)
  | VInt z0 -> Ret ((z_to_string z0), None)
  | VFloat f -> Ret ((o2.fmt_v f), None)
  | VStr s ->
    Ret
      ((append ('\''::[])
         (append (replace_char '\'' ('\''::('\''::[])) s) ('\''::[]))), None)
  | VBool b -> Ret ((bool_str b), None)
  | VCol c -> Ret (ser_column c)
  | VExp e -> render_with0 e
  | VList l ->
    let rec each l0 acc =
      match l0 with
      | [] -> Ret ((join (','::(' '::[])) (rev acc)), None)
      | x :: rest0 ->
        bind (render_with0 x) (fun s ->
          let (s', g) = s in
          (match g with
           | Some er -> Ret (s', (Some er))
           | None -> each rest0 (s' :: acc)))
    in each l []
  | VBound (mn, mx, incl) ->
    bind (serialize_with mn) (fun a ->
      let (smin, g) = a in
      (match g with
       | Some er -> Ret ([], (Some er))
       | None ->
         bind (serialize_with mx) (fun b ->
           let (smax, g0) = b in
           (match g0 with
            | Some er -> Ret ([], (Some er))
            | None ->
              Ret
                ((if incl
                  then append ('['::[])
                         (append smin
                           (append (','::(' '::[])) (append smax (']'::[]))))
                  else append ('('::[])
                         (append smin
                           (append (','::(' '::[])) (append smax (')'::[]))))),
                None)))))
  in render_with0

(** val missing :
    (operator -> (char list -> char list -> sres out) option) -> expr -> bool **)

let missing fns =
  let rec missing0 = function
  | E (l, op, r, _, _) ->
    (||)
      ((||) (match fns op with
             | Some _ -> false
             | None -> true) (vmissing l)) (vmissing r)
  and vmissing = function
  | VExp e -> missing0 e
  | VList l ->
    let rec any = function
    | [] -> false
    | x :: r -> (||) (missing0 x) (any r)
    in any l
  | VBound (a, b, _) -> (||) (vmissing a) (vmissing b)
  | _ -> false
  in missing0

(** val has_fb : expr -> bool **)

let rec has_fb = function
| E (l, op, r, _, _) ->
  (||)
    ((||) (match op with
           | Boost -> true
           | Fuzzy -> true
           | _ -> false) (vhas_fb l)) (vhas_fb r)

(** val vhas_fb : value -> bool **)

and vhas_fb = function
| VExp e -> has_fb e
| VList l ->
  let rec any = function
  | [] -> false
  | x :: r -> (||) (has_fb x) (any r)
  in any l
| VBound (a, b, _) -> (||) (vhas_fb a) (vhas_fb b)
| _ -> false

type call = (operator * char list) * char list

(** val render_tr :
    oracle2 -> (operator -> (char list -> char list -> sres out) option) ->
    expr -> (sres * call list) out **)

let render_tr o2 fns =
  let rec render_tr0 = function
  | E (l, op, r, _, _) ->
    bind (serialize_tr l) (fun ls ->
      let (s, tl0) = ls in
      let (lf, g) = s in
      (match g with
       | Some er -> Ret (([], (Some er)), tl0)
       | None ->
         bind (serialize_tr r) (fun rs_ ->
           let (s0, tr0) = rs_ in
           let (rt, g0) = s0 in
           (match g0 with
            | Some er -> Ret (([], (Some er)), (app tl0 tr0))
            | None ->
              let lf0 =
                wrap_if ((&&) (negb (no_wrap_op op)) (negb (is_simple l))) lf
              in
              let rt0 =
                wrap_if ((&&) (negb (no_wrap_op op)) (negb (is_simple r))) rt
              in
              (match fns op with
               | Some fn ->
                 bind (fn lf0 rt0) (fun x -> Ret (x,
                   (app tl0 (app tr0 (((op, lf0), rt0) :: [])))))
               | None ->
                 Ret (([], (Some
                   ('u'::('n'::('a'::('b'::('l'::('e'::(' '::('t'::('o'::(' '::('r'::('e'::('n'::('d'::('e'::('r'::(' '::('o'::('p'::('e'::('r'::('a'::('t'::('o'::('r'::[]))))))))))))))))))))))))))),
                   (app tl0 tr0)))))))
  and serialize_tr = function
  | VNil -> Ret (([], None), [])
  | VInt z0 -> Ret (((z_to_string z0), None), [])
  | VFloat f -> Ret (((o2.fmt_v f), None), [])
  | VStr s ->
    Ret
      (((append ('\''::[])
          (append (replace_char '\'' ('\''::('\''::[])) s) ('\''::[]))),
      None), [])
  | VBool b -> Ret (((bool_str b), None), [])
  | VCol c -> Ret ((ser_column c), [])
  | VExp e -> render_tr0 e
  | VList l ->
    let rec each l0 acc tr0 =
      match l0 with
      | [] -> Ret (((join (','::(' '::[])) (rev acc)), None), tr0)
      | x :: rest0 ->
        bind (render_tr0 x) (fun s ->
          let (s0, t) = s in
          let (s', g) = s0 in
          (match g with
           | Some er -> Ret ((s', (Some er)), (app tr0 t))
           | None -> each rest0 (s' :: acc) (app tr0 t)))
    in each l [] []
  | VBound (mn, mx, incl) ->
    bind (serialize_tr mn) (fun a ->
      let (s, ta) = a in
      let (smin, g) = s in
      (match g with
       | Some er -> Ret (([], (Some er)), ta)
       | None ->
         bind (serialize_tr mx) (fun b ->
           let (s0, tb) = b in
           let (smax, g0) = s0 in
           (match g0 with
            | Some er -> Ret (([], (Some er)), (app ta tb))
            | None ->
              Ret
                (((if incl
                   then append ('['::[])
                          (append smin
                            (append (','::(' '::[])) (append smax (']'::[]))))
                   else append ('('::[])
                          (append smin
                            (append (','::(' '::[])) (append smax (')'::[]))))),
                None), (app ta tb))))))
  in render_tr0

(** val postorder : expr -> operator list **)

let rec postorder = function
| E (l, op, r, _, _) -> app (postorder_v l) (app (postorder_v r) (op :: []))

(** val postorder_v : value -> operator list **)

and postorder_v = function
| VExp e -> postorder e
| VList l ->
  let rec each = function
  | [] -> []
  | x :: rest0 -> app (postorder x) (each rest0)
  in each l
| VBound (a, b, _) -> app (postorder_v a) (postorder_v b)
| _ -> []

type bytes = char list

(** val bval : char -> n **)

let bval =
  n_of_ascii

(** val rune_error : n **)

let rune_error =
  Npos (XI (XO (XI (XI (XI (XI (XI (XI (XI (XI (XI (XI (XI (XI (XI
    XH)))))))))))))))

(** val in_range : n -> n -> n -> bool **)

let in_range lo hi x =
  (&&) (N.leb lo x) (N.leb x hi)

(** val cont : n -> bool **)

let cont x =
  in_range (Npos (XO (XO (XO (XO (XO (XO (XO XH)))))))) (Npos (XI (XI (XI (XI
    (XI (XI (XO XH)))))))) x

(** val decode_rune : bytes -> (n * nat) option **)

let decode_rune = function
| [] -> None
| c0 :: r ->
  let b0 = bval c0 in
  if N.ltb b0 (Npos (XO (XO (XO (XO (XO (XO (XO XH))))))))
  then Some (b0, (S O))
  else let bad0 = Some (rune_error, (S O)) in
       if in_range (Npos (XO (XI (XO (XO (XO (XO (XI XH)))))))) (Npos (XI (XI
            (XI (XI (XI (XO (XI XH)))))))) b0
       then (match r with
             | [] -> bad0
             | c1 :: _ ->
               let b1 = bval c1 in
               if cont b1
               then Some
                      ((N.add
                         (N.mul
                           (N.sub b0 (Npos (XO (XO (XO (XO (XO (XO (XI
                             XH))))))))) (Npos (XO (XO (XO (XO (XO (XO
                           XH))))))))
                         (N.sub b1 (Npos (XO (XO (XO (XO (XO (XO (XO
                           XH)))))))))), (S (S O)))
               else bad0)
       else if in_range (Npos (XO (XO (XO (XO (XO (XI (XI XH)))))))) (Npos
                 (XI (XI (XI (XI (XO (XI (XI XH)))))))) b0
            then (match r with
                  | [] -> bad0
                  | c1 :: l ->
                    (match l with
                     | [] -> bad0
                     | c2 :: _ ->
                       let b1 = bval c1 in
                       let b2 = bval c2 in
                       let ok1 =
                         if N.eqb b0 (Npos (XO (XO (XO (XO (XO (XI (XI
                              XH))))))))
                         then in_range (Npos (XO (XO (XO (XO (XO (XI (XO
                                XH)))))))) (Npos (XI (XI (XI (XI (XI (XI (XO
                                XH)))))))) b1
                         else if N.eqb b0 (Npos (XI (XO (XI (XI (XO (XI (XI
                                   XH))))))))
                              then in_range (Npos (XO (XO (XO (XO (XO (XO (XO
                                     XH)))))))) (Npos (XI (XI (XI (XI (XI (XO
                                     (XO XH)))))))) b1
                              else cont b1
                       in
                       if (&&) ok1 (cont b2)
                       then Some
                              ((N.add
                                 (N.add
                                   (N.mul
                                     (N.sub b0 (Npos (XO (XO (XO (XO (XO (XI
                                       (XI XH))))))))) (Npos (XO (XO (XO (XO
                                     (XO (XO (XO (XO (XO (XO (XO (XO
                                     XH))))))))))))))
                                   (N.mul
                                     (N.sub b1 (Npos (XO (XO (XO (XO (XO (XO
                                       (XO XH))))))))) (Npos (XO (XO (XO (XO
                                     (XO (XO XH)))))))))
                                 (N.sub b2 (Npos (XO (XO (XO (XO (XO (XO (XO
                                   XH)))))))))), (S (S (S O))))
                       else bad0))
            else if in_range (Npos (XO (XO (XO (XO (XI (XI (XI XH))))))))
                      (Npos (XO (XO (XI (XO (XI (XI (XI XH)))))))) b0
                 then (match r with
                       | [] -> bad0
                       | c1 :: l ->
                         (match l with
                          | [] -> bad0
                          | c2 :: l0 ->
                            (match l0 with
                             | [] -> bad0
                             | c3 :: _ ->
                               let b1 = bval c1 in
                               let b2 = bval c2 in
                               let b3 = bval c3 in
                               let ok1 =
                                 if N.eqb b0 (Npos (XO (XO (XO (XO (XI (XI
                                      (XI XH))))))))
                                 then in_range (Npos (XO (XO (XO (XO (XI (XO
                                        (XO XH)))))))) (Npos (XI (XI (XI (XI
                                        (XI (XI (XO XH)))))))) b1
                                 else if N.eqb b0 (Npos (XO (XO (XI (XO (XI
                                           (XI (XI XH))))))))
                                      then in_range (Npos (XO (XO (XO (XO (XO
                                             (XO (XO XH)))))))) (Npos (XI (XI
                                             (XI (XI (XO (XO (XO XH)))))))) b1
                                      else cont b1
                               in
                               if (&&) ((&&) ok1 (cont b2)) (cont b3)
                               then Some
                                      ((N.add
                                         (N.add
                                           (N.add
                                             (N.mul
                                               (N.sub b0 (Npos (XO (XO (XO
                                                 (XO (XI (XI (XI XH)))))))))
                                               (Npos (XO (XO (XO (XO (XO (XO
                                               (XO (XO (XO (XO (XO (XO (XO
                                               (XO (XO (XO (XO (XO
                                               XH))))))))))))))))))))
                                             (N.mul
                                               (N.sub b1 (Npos (XO (XO (XO
                                                 (XO (XO (XO (XO XH)))))))))
                                               (Npos (XO (XO (XO (XO (XO (XO
                                               (XO (XO (XO (XO (XO (XO
                                               XH)))))))))))))))
                                           (N.mul
                                             (N.sub b2 (Npos (XO (XO (XO (XO
                                               (XO (XO (XO XH))))))))) (Npos
                                             (XO (XO (XO (XO (XO (XO
                                             XH)))))))))
                                         (N.sub b3 (Npos (XO (XO (XO (XO (XO
                                           (XO (XO XH)))))))))), (S (S (S (S
                                      O)))))
                               else bad0)))
                 else bad0

type token0 = { typ0 : toktype; val1 : bytes }

type classes = { is_letter : (n -> bool); is_digit : (n -> bool) }

(** val ch : char -> n **)

let ch =
  bval

(** val is_alnum : classes -> n -> bool **)

let is_alnum cl r =
  (||)
    ((||) (N.eqb r (Npos (XI (XI (XI (XI (XI (XO XH)))))))) (cl.is_letter r))
    (cl.is_digit r)

(** val is_wildcard : n -> bool **)

let is_wildcard r =
  (||) (N.eqb r (Npos (XO (XI (XO (XI (XO XH)))))))
    (N.eqb r (Npos (XI (XI (XI (XI (XI XH)))))))

(** val is_escape : n -> bool **)

let is_escape r =
  N.eqb r (Npos (XO (XO (XI (XI (XI (XO XH)))))))

(** val is_space : n -> bool **)

let is_space r =
  (||)
    ((||)
      ((||) (N.eqb r (Npos (XO (XO (XO (XO (XO XH)))))))
        (N.eqb r (Npos (XI (XO (XO XH))))))
      (N.eqb r (Npos (XI (XO (XI XH)))))) (N.eqb r (Npos (XO (XI (XO XH)))))

(** val assoc_N : n -> (n * toktype) list -> toktype option **)

let rec assoc_N r = function
| [] -> None
| p :: rest0 ->
  let (k, v) = p in if N.eqb r k then Some v else assoc_N r rest0

(** val symbol : n -> toktype option **)

let symbol r =
  assoc_N r symbols

(** val take_onto : nat -> bytes -> bytes -> bytes * bytes **)

let rec take_onto w s acc =
  match w with
  | O -> (s, acc)
  | S w' ->
    (match s with
     | [] -> (s, acc)
     | c :: r -> take_onto w' r (c :: acc))

(** val skip_space : bytes -> bytes **)

let rec skip_space s = match s with
| [] -> []
| c :: r -> if is_space (ch c) then skip_space r else s

type lexres =
| Tok of token0 * bytes
| LErr

(** val upper_ascii : char -> char **)

let upper_ascii c =
  let n1 = bval c in
  if in_range (Npos (XI (XO (XO (XO (XO (XI XH))))))) (Npos (XO (XI (XO (XI
       (XI (XI XH))))))) n1
  then ascii_of_N (N.sub n1 (Npos (XO (XO (XO (XO (XO XH)))))))
  else c

(** val bytes_eqb : bytes -> bytes -> bool **)

let bytes_eqb a b =
  if list_eq_dec (=) a b then true else false

(** val kw : char list -> bytes **)

let kw =
  list_ascii_of_string

(** val word_type : bytes -> toktype **)

let word_type w =
  let u = map upper_ascii w in
  if bytes_eqb u (kw ('A'::('N'::('D'::[]))))
  then TAnd
  else if bytes_eqb u (kw ('O'::('R'::[])))
       then TOr
       else if bytes_eqb u (kw ('N'::('O'::('T'::[]))))
            then TNot
            else if bytes_eqb u (kw ('T'::('O'::[]))) then TTO else TLiteral

(** val lex_word : classes -> nat -> bytes -> bytes -> lexres **)

let rec lex_word cl fuel s acc =
  match fuel with
  | O -> LErr
  | S f ->
    (match decode_rune s with
     | Some p ->
       let (r, w) = p in
       if (||)
            ((||) ((||) (is_alnum cl r) (is_wildcard r))
              (N.eqb r (Npos (XO (XI (XI (XI (XO XH))))))))
            (N.eqb r (Npos (XI (XO (XI (XI (XO XH)))))))
       then let (s', acc') = take_onto w s acc in lex_word cl f s' acc'
       else if is_escape r
            then let (s1, acc1) = take_onto w s acc in
                 (match decode_rune s1 with
                  | Some p0 ->
                    let (_, w2) = p0 in
                    let (s2, acc2) = take_onto w2 s1 acc1 in
                    lex_word cl f s2 acc2
                  | None -> lex_word cl f s1 acc1)
            else Tok ({ typ0 = (word_type (rev acc)); val1 = (rev acc) }, s)
     | None -> Tok ({ typ0 = (word_type (rev acc)); val1 = (rev acc) }, s))

(** val lex_phrase : classes -> nat -> n -> bytes -> bytes -> lexres **)

let rec lex_phrase cl fuel open0 s acc =
  match fuel with
  | O -> LErr
  | S f ->
    (match decode_rune s with
     | Some p ->
       let (r, w) = p in
       let (s', acc') = take_onto w s acc in
       if (||) ((||) (is_alnum cl r) (is_wildcard r)) (is_escape r)
       then lex_phrase cl f open0 s' acc'
       else if is_space r
            then lex_phrase cl f open0 s' acc'
            else if N.eqb r open0
                 then Tok ({ typ0 = TQuoted; val1 = (rev acc') }, s')
                 else lex_phrase cl f open0 s' acc'
     | None -> LErr)

(** val lex_regexp : classes -> nat -> n -> bytes -> bytes -> lexres **)

let rec lex_regexp cl fuel open0 s acc =
  match fuel with
  | O -> LErr
  | S f ->
    (match decode_rune s with
     | Some p ->
       let (r, w) = p in
       let (s', acc') = take_onto w s acc in
       if (||) (is_alnum cl r) (is_wildcard r)
       then lex_regexp cl f open0 s' acc'
       else if is_escape r
            then (match decode_rune s' with
                  | Some p0 ->
                    let (_, w2) = p0 in
                    let (s2, acc2) = take_onto w2 s' acc' in
                    lex_regexp cl f open0 s2 acc2
                  | None -> lex_regexp cl f open0 s' acc')
            else if is_space r
                 then lex_regexp cl f open0 s' acc'
                 else if N.eqb r open0
                      then Tok ({ typ0 = TRegexp; val1 = (rev acc') }, s')
                      else lex_regexp cl f open0 s' acc'
     | None -> LErr)

(** val eof_tok : token0 **)

let eof_tok =
  { typ0 = TEOF; val1 = (kw ('E'::('O'::('F'::[])))) }

(** val err_tok : token0 **)

let err_tok =
  { typ0 = TErr; val1 = [] }

(** val next_token : classes -> bytes -> token0 * bytes **)

let next_token cl s0 =
  let s = skip_space s0 in
  let fuel = S (length s) in
  (match decode_rune s with
   | Some p ->
     let (r, w) = p in
     let fin = fun x ->
       match x with
       | Tok (t, rest0) -> (t, rest0)
       | LErr -> (err_tok, [])
     in
     if (||) ((||) (is_alnum cl r) (is_wildcard r)) (is_escape r)
     then fin (lex_word cl fuel s [])
     else (match symbol r with
           | Some ty ->
             let (s', acc) = take_onto w s [] in
             ({ typ0 = ty; val1 = (rev acc) }, s')
           | None ->
             if N.eqb r (Npos (XI (XO (XI (XI (XO XH))))))
             then let (s', acc) = take_onto w s [] in
                  (match decode_rune s' with
                   | Some p0 ->
                     let (r2, _) = p0 in
                     if cl.is_digit r2
                     then fin (lex_word cl fuel s [])
                     else ({ typ0 = TMinus; val1 = (rev acc) }, s')
                   | None -> ({ typ0 = TMinus; val1 = (rev acc) }, s'))
             else if (||) (N.eqb r (Npos (XO (XI (XO (XO (XO XH)))))))
                       (N.eqb r (Npos (XI (XI (XI (XO (XO XH)))))))
                  then let (s', acc) = take_onto w s [] in
                       fin (lex_phrase cl fuel r s' acc)
                  else if N.eqb r (Npos (XI (XI (XI (XI (XO XH))))))
                       then let (s', acc) = take_onto w s [] in
                            fin (lex_regexp cl fuel r s' acc)
                       else (err_tok, []))
   | None -> (eof_tok, []))

(** val lex_all : classes -> nat -> bytes -> token0 list **)

let rec lex_all cl fuel s =
  match fuel with
  | O -> []
  | S f ->
    let (t, rest0) = next_token cl s in
    (match t.typ0 with
     | TErr -> t :: []
     | TEOF -> t :: []
     | _ -> t :: (lex_all cl f rest0))

(** val lex : classes -> bytes -> token0 list **)

let lex cl s =
  lex_all cl (S (length s)) s

type lstate = { rest : bytes; last_eof : bool }

(** val linit : bytes -> lstate **)

let linit s =
  { rest = s; last_eof = false }

(** val is_eof : token0 -> bool **)

let is_eof t =
  match t.typ0 with
  | TEOF -> true
  | _ -> false

(** val lnext : classes -> lstate -> token0 * lstate **)

let lnext cl st =
  let (t, r) = next_token cl st.rest in
  (t, { rest = r; last_eof = (is_eof t) })

(** val lpeek : classes -> lstate -> token0 **)

let lpeek cl st =
  if st.last_eof then eof_tok else fst (next_token cl st.rest)

(** val tok_of : token0 -> token **)

let tok_of t =
  { typ = t.typ0; val0 = (string_of_list_ascii t.val1) }

(** val lex_tokens : classes -> char list -> token list **)

let lex_tokens cl s =
  map tok_of (lex cl (list_ascii_of_string s))

(** val parse : oracle -> classes -> char list -> char list -> presult **)

let parse o cl df s =
  parse_toks o df (lex_tokens cl s)

(** val to_postgres :
    oracle -> oracle2 -> classes -> char list -> char list -> sres out **)

let to_postgres o o2 cl df s =
  match parse o cl df s with
  | PTree e -> render o2 e
  | PErr ->
    Ret ([], (Some
      ('p'::('a'::('r'::('s'::('e'::(' '::('e'::('r'::('r'::('o'::('r'::[])))))))))))))
  | PPanic p -> Panic p
  | POutOfFuel ->
    Panic
      ('o'::('u'::('t'::(' '::('o'::('f'::(' '::('f'::('u'::('e'::('l'::[])))))))))))

(** val to_param_postgres :
    oracle -> oracle2 -> classes -> char list -> char list -> pres out **)

let to_param_postgres o o2 cl df s =
  match parse o cl df s with
  | PTree e -> render_param o2 e
  | PErr ->
    Ret (([], []), (Some
      ('p'::('a'::('r'::('s'::('e'::(' '::('e'::('r'::('r'::('o'::('r'::[])))))))))))))
  | PPanic p -> Panic p
  | POutOfFuel ->
    Panic
      ('o'::('u'::('t'::(' '::('o'::('f'::(' '::('f'::('u'::('e'::('l'::[])))))))))))

type bytes0 = char list

(** val n0 : char -> nat **)

let n0 =
  nat_of_ascii

(** val is_c : char -> nat -> bool **)

let is_c c k =
  Nat.eqb (n0 c) k

type kw0 =
| KAnd
| KOr
| KNot
| KBetween
| KIn
| KSimilar
| KTo
| KOtherKw

type tok =
| TIdent of bytes0
| TStr of bytes0
| TNum of bytes0
| TParam of bytes0
| TOp of bytes0
| TKw of kw0
| TLP
| TRP
| TComma
| TBad of char list

(** val is_space0 : char -> bool **)

let is_space0 c =
  (||)
    ((||)
      ((||)
        ((||)
          (is_c c (S (S (S (S (S (S (S (S (S (S (S (S (S (S (S (S (S (S (S (S
            (S (S (S (S (S (S (S (S (S (S (S (S
            O)))))))))))))))))))))))))))))))))
          (is_c c (S (S (S (S (S (S (S (S (S O)))))))))))
        (is_c c (S (S (S (S (S (S (S (S (S (S O))))))))))))
      (is_c c (S (S (S (S (S (S (S (S (S (S (S (S (S O)))))))))))))))
    (is_c c (S (S (S (S (S (S (S (S (S (S (S (S O)))))))))))))

(** val is_digit0 : char -> bool **)

let is_digit0 c =
  (&&)
    (Nat.leb (S (S (S (S (S (S (S (S (S (S (S (S (S (S (S (S (S (S (S (S (S
      (S (S (S (S (S (S (S (S (S (S (S (S (S (S (S (S (S (S (S (S (S (S (S (S
      (S (S (S O)))))))))))))))))))))))))))))))))))))))))))))))) (n0 c))
    (Nat.leb (n0 c) (S (S (S (S (S (S (S (S (S (S (S (S (S (S (S (S (S (S (S
      (S (S (S (S (S (S (S (S (S (S (S (S (S (S (S (S (S (S (S (S (S (S (S (S
      (S (S (S (S (S (S (S (S (S (S (S (S (S (S
      O))))))))))))))))))))))))))))))))))))))))))))))))))))))))))

(** val is_ident_start : char -> bool **)

let is_ident_start c =
  (||)
    ((||)
      ((||)
        ((&&)
          (Nat.leb (S (S (S (S (S (S (S (S (S (S (S (S (S (S (S (S (S (S (S
            (S (S (S (S (S (S (S (S (S (S (S (S (S (S (S (S (S (S (S (S (S (S
            (S (S (S (S (S (S (S (S (S (S (S (S (S (S (S (S (S (S (S (S (S (S
            (S (S
            O)))))))))))))))))))))))))))))))))))))))))))))))))))))))))))))))))
            (n0 c))
          (Nat.leb (n0 c) (S (S (S (S (S (S (S (S (S (S (S (S (S (S (S (S (S
            (S (S (S (S (S (S (S (S (S (S (S (S (S (S (S (S (S (S (S (S (S (S
            (S (S (S (S (S (S (S (S (S (S (S (S (S (S (S (S (S (S (S (S (S (S
            (S (S (S (S (S (S (S (S (S (S (S (S (S (S (S (S (S (S (S (S (S (S
            (S (S (S (S (S (S (S
            O))))))))))))))))))))))))))))))))))))))))))))))))))))))))))))))))))))))))))))))))))))))))))))
        ((&&)
          (Nat.leb (S (S (S (S (S (S (S (S (S (S (S (S (S (S (S (S (S (S (S
            (S (S (S (S (S (S (S (S (S (S (S (S (S (S (S (S (S (S (S (S (S (S
            (S (S (S (S (S (S (S (S (S (S (S (S (S (S (S (S (S (S (S (S (S (S
            (S (S (S (S (S (S (S (S (S (S (S (S (S (S (S (S (S (S (S (S (S (S
            (S (S (S (S (S (S (S (S (S (S (S (S
            O)))))))))))))))))))))))))))))))))))))))))))))))))))))))))))))))))))))))))))))))))))))))))))))))))
            (n0 c))
          (Nat.leb (n0 c) (S (S (S (S (S (S (S (S (S (S (S (S (S (S (S (S (S
            (S (S (S (S (S (S (S (S (S (S (S (S (S (S (S (S (S (S (S (S (S (S
            (S (S (S (S (S (S (S (S (S (S (S (S (S (S (S (S (S (S (S (S (S (S
            (S (S (S (S (S (S (S (S (S (S (S (S (S (S (S (S (S (S (S (S (S (S
            (S (S (S (S (S (S (S (S (S (S (S (S (S (S (S (S (S (S (S (S (S (S
            (S (S (S (S (S (S (S (S (S (S (S (S (S (S (S (S (S
            O)))))))))))))))))))))))))))))))))))))))))))))))))))))))))))))))))))))))))))))))))))))))))))))))))))))))))))))))))))))))))))))
      (is_c c (S (S (S (S (S (S (S (S (S (S (S (S (S (S (S (S (S (S (S (S (S
        (S (S (S (S (S (S (S (S (S (S (S (S (S (S (S (S (S (S (S (S (S (S (S
        (S (S (S (S (S (S (S (S (S (S (S (S (S (S (S (S (S (S (S (S (S (S (S
        (S (S (S (S (S (S (S (S (S (S (S (S (S (S (S (S (S (S (S (S (S (S (S
        (S (S (S (S (S
        O)))))))))))))))))))))))))))))))))))))))))))))))))))))))))))))))))))))))))))))))))))))))))))))))))
    (Nat.leb (S (S (S (S (S (S (S (S (S (S (S (S (S (S (S (S (S (S (S (S (S
      (S (S (S (S (S (S (S (S (S (S (S (S (S (S (S (S (S (S (S (S (S (S (S (S
      (S (S (S (S (S (S (S (S (S (S (S (S (S (S (S (S (S (S (S (S (S (S (S (S
      (S (S (S (S (S (S (S (S (S (S (S (S (S (S (S (S (S (S (S (S (S (S (S (S
      (S (S (S (S (S (S (S (S (S (S (S (S (S (S (S (S (S (S (S (S (S (S (S (S
      (S (S (S (S (S (S (S (S (S (S (S
      O))))))))))))))))))))))))))))))))))))))))))))))))))))))))))))))))))))))))))))))))))))))))))))))))))))))))))))))))))))))))))))))))
      (n0 c))

(** val is_ident_cont : char -> bool **)

let is_ident_cont c =
  (||) ((||) (is_ident_start c) (is_digit0 c))
    (is_c c (S (S (S (S (S (S (S (S (S (S (S (S (S (S (S (S (S (S (S (S (S (S
      (S (S (S (S (S (S (S (S (S (S (S (S (S (S
      O)))))))))))))))))))))))))))))))))))))

(** val is_op_char : char -> bool **)

let is_op_char c =
  existsb (is_c c) ((S (S (S (S (S (S (S (S (S (S (S (S (S (S (S (S (S (S (S
    (S (S (S (S (S (S (S (S (S (S (S (S (S (S (S (S (S (S (S (S (S (S (S (S
    (S (S (S (S (S (S (S (S (S (S (S (S (S (S (S (S (S (S (S (S (S (S (S (S
    (S (S (S (S (S (S (S (S (S (S (S (S (S (S (S (S (S (S (S (S (S (S (S (S
    (S (S (S (S (S (S (S (S (S (S (S (S (S (S (S (S (S (S (S (S (S (S (S (S
    (S (S (S (S (S (S (S (S (S (S (S
    O)))))))))))))))))))))))))))))))))))))))))))))))))))))))))))))))))))))))))))))))))))))))))))))))))))))))))))))))))))))))))))))) :: ((S
    (S (S (S (S (S (S (S (S (S (S (S (S (S (S (S (S (S (S (S (S (S (S (S (S
    (S (S (S (S (S (S (S (S O))))))))))))))))))))))))))))))))) :: ((S (S (S
    (S (S (S (S (S (S (S (S (S (S (S (S (S (S (S (S (S (S (S (S (S (S (S (S
    (S (S (S (S (S (S (S (S (S (S (S (S (S (S (S (S (S (S (S (S (S (S (S (S
    (S (S (S (S (S (S (S (S (S (S (S (S (S
    O)))))))))))))))))))))))))))))))))))))))))))))))))))))))))))))))) :: ((S
    (S (S (S (S (S (S (S (S (S (S (S (S (S (S (S (S (S (S (S (S (S (S (S (S
    (S (S (S (S (S (S (S (S (S (S O))))))))))))))))))))))))))))))))))) :: ((S
    (S (S (S (S (S (S (S (S (S (S (S (S (S (S (S (S (S (S (S (S (S (S (S (S
    (S (S (S (S (S (S (S (S (S (S (S (S (S (S (S (S (S (S (S (S (S (S (S (S
    (S (S (S (S (S (S (S (S (S (S (S (S (S (S (S (S (S (S (S (S (S (S (S (S
    (S (S (S (S (S (S (S (S (S (S (S (S (S (S (S (S (S (S (S (S (S
    O)))))))))))))))))))))))))))))))))))))))))))))))))))))))))))))))))))))))))))))))))))))))))))))) :: ((S
    (S (S (S (S (S (S (S (S (S (S (S (S (S (S (S (S (S (S (S (S (S (S (S (S
    (S (S (S (S (S (S (S (S (S (S (S (S (S
    O)))))))))))))))))))))))))))))))))))))) :: ((S (S (S (S (S (S (S (S (S (S
    (S (S (S (S (S (S (S (S (S (S (S (S (S (S (S (S (S (S (S (S (S (S (S (S
    (S (S (S (S (S (S (S (S (S (S (S (S (S (S (S (S (S (S (S (S (S (S (S (S
    (S (S (S (S (S (S (S (S (S (S (S (S (S (S (S (S (S (S (S (S (S (S (S (S
    (S (S (S (S (S (S (S (S (S (S (S (S (S (S (S (S (S (S (S (S (S (S (S (S
    (S (S (S (S (S (S (S (S (S (S (S (S (S (S (S (S (S (S
    O)))))))))))))))))))))))))))))))))))))))))))))))))))))))))))))))))))))))))))))))))))))))))))))))))))))))))))))))))))))))))))) :: ((S
    (S (S (S (S (S (S (S (S (S (S (S (S (S (S (S (S (S (S (S (S (S (S (S (S
    (S (S (S (S (S (S (S (S (S (S (S (S (S (S (S (S (S (S (S (S (S (S (S (S
    (S (S (S (S (S (S (S (S (S (S (S (S (S (S (S (S (S (S (S (S (S (S (S (S
    (S (S (S (S (S (S (S (S (S (S (S (S (S (S (S (S (S (S (S (S (S (S (S
    O)))))))))))))))))))))))))))))))))))))))))))))))))))))))))))))))))))))))))))))))))))))))))))))))) :: ((S
    (S (S (S (S (S (S (S (S (S (S (S (S (S (S (S (S (S (S (S (S (S (S (S (S
    (S (S (S (S (S (S (S (S (S (S (S (S (S (S (S (S (S (S (S (S (S (S (S (S
    (S (S (S (S (S (S (S (S (S (S (S (S (S (S
    O))))))))))))))))))))))))))))))))))))))))))))))))))))))))))))))) :: ((S
    (S (S (S (S (S (S (S (S (S (S (S (S (S (S (S (S (S (S (S (S (S (S (S (S
    (S (S (S (S (S (S (S (S (S (S (S (S (S (S (S (S (S (S
    O))))))))))))))))))))))))))))))))))))))))))) :: ((S (S (S (S (S (S (S (S
    (S (S (S (S (S (S (S (S (S (S (S (S (S (S (S (S (S (S (S (S (S (S (S (S
    (S (S (S (S (S (S (S (S (S (S (S (S (S
    O))))))))))))))))))))))))))))))))))))))))))))) :: ((S (S (S (S (S (S (S
    (S (S (S (S (S (S (S (S (S (S (S (S (S (S (S (S (S (S (S (S (S (S (S (S
    (S (S (S (S (S (S (S (S (S (S (S
    O)))))))))))))))))))))))))))))))))))))))))) :: ((S (S (S (S (S (S (S (S
    (S (S (S (S (S (S (S (S (S (S (S (S (S (S (S (S (S (S (S (S (S (S (S (S
    (S (S (S (S (S (S (S (S (S (S (S (S (S (S (S
    O))))))))))))))))))))))))))))))))))))))))))))))) :: ((S (S (S (S (S (S (S
    (S (S (S (S (S (S (S (S (S (S (S (S (S (S (S (S (S (S (S (S (S (S (S (S
    (S (S (S (S (S (S O))))))))))))))))))))))))))))))))))))) :: ((S (S (S (S
    (S (S (S (S (S (S (S (S (S (S (S (S (S (S (S (S (S (S (S (S (S (S (S (S
    (S (S (S (S (S (S (S (S (S (S (S (S (S (S (S (S (S (S (S (S (S (S (S (S
    (S (S (S (S (S (S (S (S
    O)))))))))))))))))))))))))))))))))))))))))))))))))))))))))))) :: ((S (S
    (S (S (S (S (S (S (S (S (S (S (S (S (S (S (S (S (S (S (S (S (S (S (S (S
    (S (S (S (S (S (S (S (S (S (S (S (S (S (S (S (S (S (S (S (S (S (S (S (S
    (S (S (S (S (S (S (S (S (S (S (S (S
    O)))))))))))))))))))))))))))))))))))))))))))))))))))))))))))))) :: ((S (S
    (S (S (S (S (S (S (S (S (S (S (S (S (S (S (S (S (S (S (S (S (S (S (S (S
    (S (S (S (S (S (S (S (S (S (S (S (S (S (S (S (S (S (S (S (S (S (S (S (S
    (S (S (S (S (S (S (S (S (S (S (S
    O))))))))))))))))))))))))))))))))))))))))))))))))))))))))))))) :: [])))))))))))))))))

(** val lower0 : char -> char **)

let lower0 c =
  if (&&)
       (Nat.leb (S (S (S (S (S (S (S (S (S (S (S (S (S (S (S (S (S (S (S (S
         (S (S (S (S (S (S (S (S (S (S (S (S (S (S (S (S (S (S (S (S (S (S (S
         (S (S (S (S (S (S (S (S (S (S (S (S (S (S (S (S (S (S (S (S (S (S
         O)))))))))))))))))))))))))))))))))))))))))))))))))))))))))))))))))
         (n0 c))
       (Nat.leb (n0 c) (S (S (S (S (S (S (S (S (S (S (S (S (S (S (S (S (S (S
         (S (S (S (S (S (S (S (S (S (S (S (S (S (S (S (S (S (S (S (S (S (S (S
         (S (S (S (S (S (S (S (S (S (S (S (S (S (S (S (S (S (S (S (S (S (S (S
         (S (S (S (S (S (S (S (S (S (S (S (S (S (S (S (S (S (S (S (S (S (S (S
         (S (S (S
         O)))))))))))))))))))))))))))))))))))))))))))))))))))))))))))))))))))))))))))))))))))))))))))
  then ascii_of_nat
         (add (n0 c) (S (S (S (S (S (S (S (S (S (S (S (S (S (S (S (S (S (S (S
           (S (S (S (S (S (S (S (S (S (S (S (S (S
           O)))))))))))))))))))))))))))))))))
  else c

(** val str : char list -> bytes0 **)

let str =
  list_ascii_of_string

(** val beq : bytes0 -> bytes0 -> bool **)

let beq a b =
  if list_eq_dec (=) a b then true else false

(** val is_cont_byte : char -> bool **)

let is_cont_byte c =
  (&&)
    (Nat.leb (S (S (S (S (S (S (S (S (S (S (S (S (S (S (S (S (S (S (S (S (S
      (S (S (S (S (S (S (S (S (S (S (S (S (S (S (S (S (S (S (S (S (S (S (S (S
      (S (S (S (S (S (S (S (S (S (S (S (S (S (S (S (S (S (S (S (S (S (S (S (S
      (S (S (S (S (S (S (S (S (S (S (S (S (S (S (S (S (S (S (S (S (S (S (S (S
      (S (S (S (S (S (S (S (S (S (S (S (S (S (S (S (S (S (S (S (S (S (S (S (S
      (S (S (S (S (S (S (S (S (S (S (S
      O))))))))))))))))))))))))))))))))))))))))))))))))))))))))))))))))))))))))))))))))))))))))))))))))))))))))))))))))))))))))))))))))
      (n0 c))
    (Nat.leb (n0 c) (S (S (S (S (S (S (S (S (S (S (S (S (S (S (S (S (S (S (S
      (S (S (S (S (S (S (S (S (S (S (S (S (S (S (S (S (S (S (S (S (S (S (S (S
      (S (S (S (S (S (S (S (S (S (S (S (S (S (S (S (S (S (S (S (S (S (S (S (S
      (S (S (S (S (S (S (S (S (S (S (S (S (S (S (S (S (S (S (S (S (S (S (S (S
      (S (S (S (S (S (S (S (S (S (S (S (S (S (S (S (S (S (S (S (S (S (S (S (S
      (S (S (S (S (S (S (S (S (S (S (S (S (S (S (S (S (S (S (S (S (S (S (S (S
      (S (S (S (S (S (S (S (S (S (S (S (S (S (S (S (S (S (S (S (S (S (S (S (S
      (S (S (S (S (S (S (S (S (S (S (S (S (S (S (S (S (S (S (S (S (S (S (S (S
      (S (S (S (S
      O))))))))))))))))))))))))))))))))))))))))))))))))))))))))))))))))))))))))))))))))))))))))))))))))))))))))))))))))))))))))))))))))))))))))))))))))))))))))))))))))))))))))))))))))))))))))))))))))

(** val strip_partial : bytes0 -> bytes0 **)

let rec strip_partial = function
| [] -> []
| x :: r' -> if is_cont_byte x then strip_partial r' else r'

(** val truncate_ident : bytes0 -> bytes0 **)

let truncate_ident s =
  if Nat.leb (length s) (S (S (S (S (S (S (S (S (S (S (S (S (S (S (S (S (S (S
       (S (S (S (S (S (S (S (S (S (S (S (S (S (S (S (S (S (S (S (S (S (S (S
       (S (S (S (S (S (S (S (S (S (S (S (S (S (S (S (S (S (S (S (S (S (S
       O)))))))))))))))))))))))))))))))))))))))))))))))))))))))))))))))
  then s
  else let p =
         firstn (S (S (S (S (S (S (S (S (S (S (S (S (S (S (S (S (S (S (S (S
           (S (S (S (S (S (S (S (S (S (S (S (S (S (S (S (S (S (S (S (S (S (S
           (S (S (S (S (S (S (S (S (S (S (S (S (S (S (S (S (S (S (S (S (S
           O))))))))))))))))))))))))))))))))))))))))))))))))))))))))))))))) s
       in
       (match nth_error s (S (S (S (S (S (S (S (S (S (S (S (S (S (S (S (S (S
                (S (S (S (S (S (S (S (S (S (S (S (S (S (S (S (S (S (S (S (S
                (S (S (S (S (S (S (S (S (S (S (S (S (S (S (S (S (S (S (S (S
                (S (S (S (S (S (S
                O))))))))))))))))))))))))))))))))))))))))))))))))))))))))))))))) with
        | Some c -> if is_cont_byte c then rev (strip_partial (rev p)) else p
        | None -> p)

(** val skip_ws : bytes0 -> bytes0 **)

let rec skip_ws s = match s with
| [] -> []
| c :: r -> if is_space0 c then skip_ws r else s

(** val has_newline : bytes0 -> bool **)

let rec has_newline = function
| [] -> false
| c :: r ->
  if is_space0 c
  then (||)
         ((||) (is_c c (S (S (S (S (S (S (S (S (S (S O)))))))))))
           (is_c c (S (S (S (S (S (S (S (S (S (S (S (S (S O)))))))))))))))
         (has_newline r)
  else false

(** val quoted_body :
    nat -> char -> bytes0 -> bytes0 -> (bytes0 * bytes0) option **)

let rec quoted_body fuel q0 s acc =
  match fuel with
  | O -> None
  | S f ->
    (match s with
     | [] -> None
     | c :: r ->
       if (=) c q0
       then (match r with
             | [] -> Some ((rev acc), [])
             | c2 :: r2 ->
               if (=) c2 q0
               then quoted_body f q0 r2 (c :: acc)
               else Some ((rev acc), r))
       else quoted_body f q0 r (c :: acc))

(** val string_const : nat -> bytes0 -> bytes0 -> (bytes0 * bytes0) option **)

let rec string_const fuel s acc =
  match fuel with
  | O -> None
  | S f ->
    (match quoted_body (S (length s)) '\'' s [] with
     | Some p ->
       let (body, rest0) = p in
       let acc' = app acc body in
       if has_newline rest0
       then (match skip_ws rest0 with
             | [] -> Some (acc', rest0)
             | c :: r ->
               if (=) c '\''
               then string_const f r acc'
               else Some (acc', rest0))
       else Some (acc', rest0)
     | None -> None)

(** val span : (char -> bool) -> bytes0 -> bytes0 -> bytes0 * bytes0 **)

let rec span p s acc =
  match s with
  | [] -> ((rev acc), [])
  | c :: r -> if p c then span p r (c :: acc) else ((rev acc), s)

(** val keyword : bytes0 -> kw0 option **)

let keyword w =
  if beq w (str ('a'::('n'::('d'::[]))))
  then Some KAnd
  else if beq w (str ('o'::('r'::[])))
       then Some KOr
       else if beq w (str ('n'::('o'::('t'::[]))))
            then Some KNot
            else if beq w
                      (str
                        ('b'::('e'::('t'::('w'::('e'::('e'::('n'::[]))))))))
                 then Some KBetween
                 else if beq w (str ('i'::('n'::[])))
                      then Some KIn
                      else if beq w
                                (str
                                  ('s'::('i'::('m'::('i'::('l'::('a'::('r'::[]))))))))
                           then Some KSimilar
                           else if beq w (str ('t'::('o'::[])))
                                then Some KTo
                                else if existsb (beq w)
                                          (map str
                                            (('s'::('e'::('l'::('e'::('c'::('t'::[])))))) :: (('f'::('r'::('o'::('m'::[])))) :: (('w'::('h'::('e'::('r'::('e'::[]))))) :: (('i'::('s'::[])) :: (('n'::('u'::('l'::('l'::[])))) :: (('t'::('r'::('u'::('e'::[])))) :: (('f'::('a'::('l'::('s'::('e'::[]))))) :: (('l'::('i'::('k'::('e'::[])))) :: (('i'::('l'::('i'::('k'::('e'::[]))))) :: (('a'::('s'::[])) :: (('c'::('a'::('s'::('e'::[])))) :: (('w'::('h'::('e'::('n'::[])))) :: (('t'::('h'::('e'::('n'::[])))) :: (('e'::('l'::('s'::('e'::[])))) :: (('e'::('n'::('d'::[]))) :: (('c'::('a'::('s'::('t'::[])))) :: (('u'::('n'::('i'::('o'::('n'::[]))))) :: (('e'::('x'::('i'::('s'::('t'::('s'::[])))))) :: (('a'::('n'::('y'::[]))) :: (('a'::('l'::('l'::[]))) :: (('s'::('o'::('m'::('e'::[])))) :: (('a'::('r'::('r'::('a'::('y'::[]))))) :: (('r'::('o'::('w'::[]))) :: (('e'::('s'::('c'::('a'::('p'::('e'::[])))))) :: (('i'::('s'::('n'::('u'::('l'::('l'::[])))))) :: (('n'::('o'::('t'::('n'::('u'::('l'::('l'::[]))))))) :: (('c'::('o'::('l'::('l'::('a'::('t'::('e'::[]))))))) :: (('a'::('t'::[])) :: (('o'::('r'::('d'::('e'::('r'::[]))))) :: (('b'::('y'::[])) :: (('g'::('r'::('o'::('u'::('p'::[]))))) :: (('h'::('a'::('v'::('i'::('n'::('g'::[])))))) :: (('l'::('i'::('m'::('i'::('t'::[]))))) :: (('o'::('f'::('f'::('s'::('e'::('t'::[])))))) :: (('o'::('n'::[])) :: (('u'::('s'::('i'::('n'::('g'::[]))))) :: (('j'::('o'::('i'::('n'::[])))) :: (('d'::('i'::('s'::('t'::('i'::('n'::('c'::('t'::[])))))))) :: (('i'::('n'::('t'::('o'::[])))) :: (('t'::('a'::('b'::('l'::('e'::[]))))) :: (('d'::('e'::('f'::('a'::('u'::('l'::('t'::[]))))))) :: (('s'::('y'::('m'::('m'::('e'::('t'::('r'::('i'::('c'::[]))))))))) :: (('a'::('s'::('y'::('m'::('m'::('e'::('t'::('r'::('i'::('c'::[])))))))))) :: (('o'::('v'::('e'::('r'::('l'::('a'::('p'::('s'::[])))))))) :: (('o'::('p'::('e'::('r'::('a'::('t'::('o'::('r'::[])))))))) :: (('u'::('n'::('i'::('q'::('u'::('e'::[])))))) :: (('n'::('o'::('r'::('m'::('a'::('l'::('i'::('z'::('e'::('d'::[])))))))))) :: (('d'::('o'::('c'::('u'::('m'::('e'::('n'::('t'::[])))))))) :: (('o'::('f'::[])) :: []))))))))))))))))))))))))))))))))))))))))))))))))))
                                     then Some KOtherKw
                                     else None

(** val cut_comment : bytes0 -> bytes0 -> bytes0 **)

let rec cut_comment s acc =
  match s with
  | [] -> rev acc
  | a :: r ->
    (match r with
     | [] -> rev (a :: acc)
     | b :: _ ->
       if (||)
            ((&&)
              (is_c a (S (S (S (S (S (S (S (S (S (S (S (S (S (S (S (S (S (S
                (S (S (S (S (S (S (S (S (S (S (S (S (S (S (S (S (S (S (S (S
                (S (S (S (S (S (S (S
                O))))))))))))))))))))))))))))))))))))))))))))))
              (is_c b (S (S (S (S (S (S (S (S (S (S (S (S (S (S (S (S (S (S
                (S (S (S (S (S (S (S (S (S (S (S (S (S (S (S (S (S (S (S (S
                (S (S (S (S (S (S (S
                O)))))))))))))))))))))))))))))))))))))))))))))))
            ((&&)
              (is_c a (S (S (S (S (S (S (S (S (S (S (S (S (S (S (S (S (S (S
                (S (S (S (S (S (S (S (S (S (S (S (S (S (S (S (S (S (S (S (S
                (S (S (S (S (S (S (S (S (S
                O))))))))))))))))))))))))))))))))))))))))))))))))
              (is_c b (S (S (S (S (S (S (S (S (S (S (S (S (S (S (S (S (S (S
                (S (S (S (S (S (S (S (S (S (S (S (S (S (S (S (S (S (S (S (S
                (S (S (S (S O))))))))))))))))))))))))))))))))))))))))))))
       then rev acc
       else cut_comment r (a :: acc))

(** val special_op : char -> bool **)

let special_op c =
  existsb (is_c c) ((S (S (S (S (S (S (S (S (S (S (S (S (S (S (S (S (S (S (S
    (S (S (S (S (S (S (S (S (S (S (S (S (S (S (S (S (S (S (S (S (S (S (S (S
    (S (S (S (S (S (S (S (S (S (S (S (S (S (S (S (S (S (S (S (S (S (S (S (S
    (S (S (S (S (S (S (S (S (S (S (S (S (S (S (S (S (S (S (S (S (S (S (S (S
    (S (S (S (S (S (S (S (S (S (S (S (S (S (S (S (S (S (S (S (S (S (S (S (S
    (S (S (S (S (S (S (S (S (S (S (S
    O)))))))))))))))))))))))))))))))))))))))))))))))))))))))))))))))))))))))))))))))))))))))))))))))))))))))))))))))))))))))))))))) :: ((S
    (S (S (S (S (S (S (S (S (S (S (S (S (S (S (S (S (S (S (S (S (S (S (S (S
    (S (S (S (S (S (S (S (S O))))))))))))))))))))))))))))))))) :: ((S (S (S
    (S (S (S (S (S (S (S (S (S (S (S (S (S (S (S (S (S (S (S (S (S (S (S (S
    (S (S (S (S (S (S (S (S (S (S (S (S (S (S (S (S (S (S (S (S (S (S (S (S
    (S (S (S (S (S (S (S (S (S (S (S (S (S
    O)))))))))))))))))))))))))))))))))))))))))))))))))))))))))))))))) :: ((S
    (S (S (S (S (S (S (S (S (S (S (S (S (S (S (S (S (S (S (S (S (S (S (S (S
    (S (S (S (S (S (S (S (S (S (S O))))))))))))))))))))))))))))))))))) :: ((S
    (S (S (S (S (S (S (S (S (S (S (S (S (S (S (S (S (S (S (S (S (S (S (S (S
    (S (S (S (S (S (S (S (S (S (S (S (S (S (S (S (S (S (S (S (S (S (S (S (S
    (S (S (S (S (S (S (S (S (S (S (S (S (S (S (S (S (S (S (S (S (S (S (S (S
    (S (S (S (S (S (S (S (S (S (S (S (S (S (S (S (S (S (S (S (S (S
    O)))))))))))))))))))))))))))))))))))))))))))))))))))))))))))))))))))))))))))))))))))))))))))))) :: ((S
    (S (S (S (S (S (S (S (S (S (S (S (S (S (S (S (S (S (S (S (S (S (S (S (S
    (S (S (S (S (S (S (S (S (S (S (S (S (S
    O)))))))))))))))))))))))))))))))))))))) :: ((S (S (S (S (S (S (S (S (S (S
    (S (S (S (S (S (S (S (S (S (S (S (S (S (S (S (S (S (S (S (S (S (S (S (S
    (S (S (S (S (S (S (S (S (S (S (S (S (S (S (S (S (S (S (S (S (S (S (S (S
    (S (S (S (S (S (S (S (S (S (S (S (S (S (S (S (S (S (S (S (S (S (S (S (S
    (S (S (S (S (S (S (S (S (S (S (S (S (S (S (S (S (S (S (S (S (S (S (S (S
    (S (S (S (S (S (S (S (S (S (S (S (S (S (S (S (S (S (S
    O)))))))))))))))))))))))))))))))))))))))))))))))))))))))))))))))))))))))))))))))))))))))))))))))))))))))))))))))))))))))))))) :: ((S
    (S (S (S (S (S (S (S (S (S (S (S (S (S (S (S (S (S (S (S (S (S (S (S (S
    (S (S (S (S (S (S (S (S (S (S (S (S (S (S (S (S (S (S (S (S (S (S (S (S
    (S (S (S (S (S (S (S (S (S (S (S (S (S (S (S (S (S (S (S (S (S (S (S (S
    (S (S (S (S (S (S (S (S (S (S (S (S (S (S (S (S (S (S (S (S (S (S (S
    O)))))))))))))))))))))))))))))))))))))))))))))))))))))))))))))))))))))))))))))))))))))))))))))))) :: ((S
    (S (S (S (S (S (S (S (S (S (S (S (S (S (S (S (S (S (S (S (S (S (S (S (S
    (S (S (S (S (S (S (S (S (S (S (S (S (S (S (S (S (S (S (S (S (S (S (S (S
    (S (S (S (S (S (S (S (S (S (S (S (S (S (S
    O))))))))))))))))))))))))))))))))))))))))))))))))))))))))))))))) :: ((S
    (S (S (S (S (S (S (S (S (S (S (S (S (S (S (S (S (S (S (S (S (S (S (S (S
    (S (S (S (S (S (S (S (S (S (S (S (S
    O))))))))))))))))))))))))))))))))))))) :: []))))))))))

(** val strip_pm : bytes0 -> bytes0 **)

let rec strip_pm r = match r with
| [] -> r
| c :: r' ->
  (match r' with
   | [] -> r
   | _ :: _ ->
     if (||)
          (is_c c (S (S (S (S (S (S (S (S (S (S (S (S (S (S (S (S (S (S (S (S
            (S (S (S (S (S (S (S (S (S (S (S (S (S (S (S (S (S (S (S (S (S (S
            (S O))))))))))))))))))))))))))))))))))))))))))))
          (is_c c (S (S (S (S (S (S (S (S (S (S (S (S (S (S (S (S (S (S (S (S
            (S (S (S (S (S (S (S (S (S (S (S (S (S (S (S (S (S (S (S (S (S (S
            (S (S (S O))))))))))))))))))))))))))))))))))))))))))))))
     then strip_pm r'
     else r)

(** val op_text : bytes0 -> bytes0 **)

let op_text run0 =
  let o = cut_comment run0 [] in
  if existsb special_op o
  then o
  else (match o with
        | [] -> rev (strip_pm (rev o))
        | _ :: l -> (match l with
                     | [] -> o
                     | _ :: _ -> rev (strip_pm (rev o))))

(** val next : bytes0 -> (tok * bytes0) option **)

let next s0 =
  let s = skip_ws s0 in
  (match s with
   | [] -> None
   | c :: r ->
     if is_c c (S (S (S (S (S (S (S (S (S (S (S (S (S (S (S (S (S (S (S (S (S
          (S (S (S (S (S (S (S (S (S (S (S (S (S (S (S (S (S (S (S
          O))))))))))))))))))))))))))))))))))))))))
     then Some (TLP, r)
     else if is_c c (S (S (S (S (S (S (S (S (S (S (S (S (S (S (S (S (S (S (S
               (S (S (S (S (S (S (S (S (S (S (S (S (S (S (S (S (S (S (S (S (S
               (S O)))))))))))))))))))))))))))))))))))))))))
          then Some (TRP, r)
          else if is_c c (S (S (S (S (S (S (S (S (S (S (S (S (S (S (S (S (S
                    (S (S (S (S (S (S (S (S (S (S (S (S (S (S (S (S (S (S (S
                    (S (S (S (S (S (S (S (S
                    O))))))))))))))))))))))))))))))))))))))))))))
               then Some (TComma, r)
               else if is_c c (S (S (S (S (S (S (S (S (S (S (S (S (S (S (S (S
                         (S (S (S (S (S (S (S (S (S (S (S (S (S (S (S (S (S
                         (S (S (S (S (S (S (S (S (S (S (S (S (S (S (S (S (S
                         (S (S (S (S (S (S (S (S (S
                         O)))))))))))))))))))))))))))))))))))))))))))))))))))))))))))
                    then Some ((TBad
                           ('s'::('t'::('a'::('t'::('e'::('m'::('e'::('n'::('t'::(' '::('s'::('e'::('p'::('a'::('r'::('a'::('t'::('o'::('r'::[])))))))))))))))))))),
                           r)
                    else if is_c c (S (S (S (S (S (S (S (S (S (S (S (S (S (S
                              (S (S (S (S (S (S (S (S (S (S (S (S (S (S (S (S
                              (S (S (S (S O))))))))))))))))))))))))))))))))))
                         then (match quoted_body (S (length r)) '"' r [] with
                               | Some p ->
                                 let (b, rest0) = p in
                                 (match b with
                                  | [] ->
                                    Some ((TBad
                                      ('z'::('e'::('r'::('o'::('-'::('l'::('e'::('n'::('g'::('t'::('h'::(' '::('d'::('e'::('l'::('i'::('m'::('i'::('t'::('e'::('d'::(' '::('i'::('d'::('e'::('n'::('t'::('i'::('f'::('i'::('e'::('r'::[]))))))))))))))))))))))))))))))))),
                                      rest0)
                                  | _ :: _ ->
                                    Some ((TIdent (truncate_ident b)), rest0))
                               | None ->
                                 Some ((TBad
                                   ('u'::('n'::('t'::('e'::('r'::('m'::('i'::('n'::('a'::('t'::('e'::('d'::(' '::('q'::('u'::('o'::('t'::('e'::('d'::(' '::('i'::('d'::('e'::('n'::('t'::('i'::('f'::('i'::('e'::('r'::[]))))))))))))))))))))))))))))))),
                                   []))
                         else if is_c c (S (S (S (S (S (S (S (S (S (S (S (S
                                   (S (S (S (S (S (S (S (S (S (S (S (S (S (S
                                   (S (S (S (S (S (S (S (S (S (S (S (S (S
                                   O)))))))))))))))))))))))))))))))))))))))
                              then (match string_const (S (length r)) r [] with
                                    | Some p ->
                                      let (b, rest0) = p in
                                      Some ((TStr b), rest0)
                                    | None ->
                                      Some ((TBad
                                        ('u'::('n'::('t'::('e'::('r'::('m'::('i'::('n'::('a'::('t'::('e'::('d'::(' '::('q'::('u'::('o'::('t'::('e'::('d'::(' '::('s'::('t'::('r'::('i'::('n'::('g'::[]))))))))))))))))))))))))))),
                                        []))
                              else if is_c c (S (S (S (S (S (S (S (S (S (S (S
                                        (S (S (S (S (S (S (S (S (S (S (S (S
                                        (S (S (S (S (S (S (S (S (S (S (S (S
                                        (S
                                        O))))))))))))))))))))))))))))))))))))
                                   then let (d, rest0) = span is_digit0 r []
                                        in
                                        (match d with
                                         | [] ->
                                           Some ((TBad
                                             ('d'::('o'::('l'::('l'::('a'::('r'::[]))))))),
                                             r)
                                         | _ :: _ ->
                                           if Nat.leb (length d) (S (S (S (S
                                                (S (S (S (S (S O)))))))))
                                           then Some ((TParam d), rest0)
                                           else Some ((TBad
                                                  ('p'::('a'::('r'::('a'::('m'::('e'::('t'::('e'::('r'::(' '::('n'::('u'::('m'::('b'::('e'::('r'::[]))))))))))))))))),
                                                  rest0))
                                   else if (||) (is_digit0 c)
                                             ((&&)
                                               (is_c c (S (S (S (S (S (S (S
                                                 (S (S (S (S (S (S (S (S (S
                                                 (S (S (S (S (S (S (S (S (S
                                                 (S (S (S (S (S (S (S (S (S
                                                 (S (S (S (S (S (S (S (S (S
                                                 (S (S (S
                                                 O)))))))))))))))))))))))))))))))))))))))))))))))
                                               (match r with
                                                | [] -> false
                                                | d :: _ -> is_digit0 d))
                                        then let (ip, r1) =
                                               span is_digit0 s []
                                             in
                                             (match r1 with
                                              | [] ->
                                                let fp = [] in
                                                let (ep, r3) =
                                                  match r1 with
                                                  | [] -> ([], r1)
                                                  | e :: r2' ->
                                                    if (||)
                                                         (is_c e (S (S (S (S
                                                           (S (S (S (S (S (S
                                                           (S (S (S (S (S (S
                                                           (S (S (S (S (S (S
                                                           (S (S (S (S (S (S
                                                           (S (S (S (S (S (S
                                                           (S (S (S (S (S (S
                                                           (S (S (S (S (S (S
                                                           (S (S (S (S (S (S
                                                           (S (S (S (S (S (S
                                                           (S (S (S (S (S (S
                                                           (S (S (S (S (S (S
                                                           (S (S (S (S (S (S
                                                           (S (S (S (S (S (S
                                                           (S (S (S (S (S (S
                                                           (S (S (S (S (S (S
                                                           (S (S (S (S (S (S
                                                           (S
                                                           O))))))))))))))))))))))))))))))))))))))))))))))))))))))))))))))))))))))))))))))))))))))))))))))))))))))
                                                         (is_c e (S (S (S (S
                                                           (S (S (S (S (S (S
                                                           (S (S (S (S (S (S
                                                           (S (S (S (S (S (S
                                                           (S (S (S (S (S (S
                                                           (S (S (S (S (S (S
                                                           (S (S (S (S (S (S
                                                           (S (S (S (S (S (S
                                                           (S (S (S (S (S (S
                                                           (S (S (S (S (S (S
                                                           (S (S (S (S (S (S
                                                           (S (S (S (S (S
                                                           O))))))))))))))))))))))))))))))))))))))))))))))))))))))))))))))))))))))
                                                    then (match r2' with
                                                          | [] ->
                                                            let sg = [] in
                                                            let (ed, r3) =
                                                              span is_digit0
                                                                r2' []
                                                            in
                                                            (match ed with
                                                             | [] -> ([], r1)
                                                             | _ :: _ ->
                                                               ((e :: 
                                                                 (app sg ed)),
                                                                 r3))
                                                          | x :: y ->
                                                            if (||)
                                                                 (is_c x (S
                                                                   (S (S (S
                                                                   (S (S (S
                                                                   (S (S (S
                                                                   (S (S (S
                                                                   (S (S (S
                                                                   (S (S (S
                                                                   (S (S (S
                                                                   (S (S (S
                                                                   (S (S (S
                                                                   (S (S (S
                                                                   (S (S (S
                                                                   (S (S (S
                                                                   (S (S (S
                                                                   (S (S (S
                                                                   O))))))))))))))))))))))))))))))))))))))))))))
                                                                 (is_c x (S
                                                                   (S (S (S
                                                                   (S (S (S
                                                                   (S (S (S
                                                                   (S (S (S
                                                                   (S (S (S
                                                                   (S (S (S
                                                                   (S (S (S
                                                                   (S (S (S
                                                                   (S (S (S
                                                                   (S (S (S
                                                                   (S (S (S
                                                                   (S (S (S
                                                                   (S (S (S
                                                                   (S (S (S
                                                                   (S (S
                                                                   O))))))))))))))))))))))))))))))))))))))))))))))
                                                            then let sg =
                                                                   x :: []
                                                                 in
                                                                 let (
                                                                   ed, r3) =
                                                                   span
                                                                    is_digit0
                                                                    y []
                                                                 in
                                                                 (match ed with
                                                                  | [] ->
                                                                    ([], r1)
                                                                  | _ :: _ ->
                                                                    ((e :: 
                                                                    (app sg
                                                                    ed)), r3))
                                                            else let sg = []
                                                                 in
                                                                 let (
                                                                   ed, r3) =
                                                                   span
                                                                    is_digit0
                                                                    r2' []
                                                                 in
                                                                 (match ed with
                                                                  | [] ->
                                                                    ([], r1)
                                                                  | _ :: _ ->
                                                                    ((e :: 
                                                                    (app sg
                                                                    ed)), r3)))
                                                    else ([], r1)
                                                in
                                                Some ((TNum
                                                (app ip (app fp ep))), r3)
                                              | d :: r1' ->
                                                if is_c d (S (S (S (S (S (S
                                                     (S (S (S (S (S (S (S (S
                                                     (S (S (S (S (S (S (S (S
                                                     (S (S (S (S (S (S (S (S
                                                     (S (S (S (S (S (S (S (S
                                                     (S (S (S (S (S (S (S (S
                                                     O))))))))))))))))))))))))))))))))))))))))))))))
                                                then let (f, r2) =
                                                       span is_digit0 r1' []
                                                     in
                                                     let fp = d :: f in
                                                     let (ep, r3) =
                                                       match r2 with
                                                       | [] -> ([], r2)
                                                       | e :: r2' ->
                                                         if (||)
                                                              (is_c e (S (S
                                                                (S (S (S (S
                                                                (S (S (S (S
                                                                (S (S (S (S
                                                                (S (S (S (S
                                                                (S (S (S (S
                                                                (S (S (S (S
                                                                (S (S (S (S
                                                                (S (S (S (S
                                                                (S (S (S (S
                                                                (S (S (S (S
                                                                (S (S (S (S
                                                                (S (S (S (S
                                                                (S (S (S (S
                                                                (S (S (S (S
                                                                (S (S (S (S
                                                                (S (S (S (S
                                                                (S (S (S (S
                                                                (S (S (S (S
                                                                (S (S (S (S
                                                                (S (S (S (S
                                                                (S (S (S (S
                                                                (S (S (S (S
                                                                (S (S (S (S
                                                                (S (S (S (S
                                                                (S (S (S
                                                                O))))))))))))))))))))))))))))))))))))))))))))))))))))))))))))))))))))))))))))))))))))))))))))))))))))))
                                                              (is_c e (S (S
                                                                (S (S (S (S
                                                                (S (S (S (S
                                                                (S (S (S (S
                                                                (S (S (S (S
                                                                (S (S (S (S
                                                                (S (S (S (S
                                                                (S (S (S (S
                                                                (S (S (S (S
                                                                (S (S (S (S
                                                                (S (S (S (S
                                                                (S (S (S (S
                                                                (S (S (S (S
                                                                (S (S (S (S
                                                                (S (S (S (S
                                                                (S (S (S (S
                                                                (S (S (S (S
                                                                (S (S (S
                                                                O))))))))))))))))))))))))))))))))))))))))))))))))))))))))))))))))))))))
                                                         then (match r2' with
                                                               | [] ->
                                                                 let sg = []
                                                                 in
                                                                 let (
                                                                   ed, r3) =
                                                                   span
                                                                    is_digit0
                                                                    r2' []
                                                                 in
                                                                 (match ed with
                                                                  | [] ->
                                                                    ([], r2)
                                                                  | _ :: _ ->
                                                                    ((e :: 
                                                                    (app sg
                                                                    ed)), r3))
                                                               | x :: y ->
                                                                 if (||)
                                                                    (is_c x
                                                                    (S (S (S
                                                                    (S (S (S
                                                                    (S (S (S
                                                                    (S (S (S
                                                                    (S (S (S
                                                                    (S (S (S
                                                                    (S (S (S
                                                                    (S (S (S
                                                                    (S (S (S
                                                                    (S (S (S
                                                                    (S (S (S
                                                                    (S (S (S
                                                                    (S (S (S
                                                                    (S (S (S
                                                                    (S
                                                                    O))))))))))))))))))))))))))))))))))))))))))))
                                                                    (is_c x
                                                                    (S (S (S
                                                                    (S (S (S
                                                                    (S (S (S
                                                                    (S (S (S
                                                                    (S (S (S
                                                                    (S (S (S
                                                                    (S (S (S
                                                                    (S (S (S
                                                                    (S (S (S
                                                                    (S (S (S
                                                                    (S (S (S
                                                                    (S (S (S
                                                                    (S (S (S
                                                                    (S (S (S
                                                                    (S (S (S
                                                                    O))))))))))))))))))))))))))))))))))))))))))))))
                                                                 then 
                                                                   let sg =
                                                                    x :: []
                                                                   in
                                                                   let (
                                                                    ed, r3) =
                                                                    span
                                                                    is_digit0
                                                                    y []
                                                                   in
                                                                   (match ed with
                                                                    | [] ->
                                                                    ([], r2)
                                                                    | _ :: _ ->
                                                                    ((e :: 
                                                                    (app sg
                                                                    ed)), r3))
                                                                 else 
                                                                   let sg = []
                                                                   in
                                                                   let (
                                                                    ed, r3) =
                                                                    span
                                                                    is_digit0
                                                                    r2' []
                                                                   in
                                                                   (match ed with
                                                                    | [] ->
                                                                    ([], r2)
                                                                    | _ :: _ ->
                                                                    ((e :: 
                                                                    (app sg
                                                                    ed)), r3)))
                                                         else ([], r2)
                                                     in
                                                     Some ((TNum
                                                     (app ip (app fp ep))),
                                                     r3)
                                                else let fp = [] in
                                                     let (ep, r3) =
                                                       match r1 with
                                                       | [] -> ([], r1)
                                                       | e :: r2' ->
                                                         if (||)
                                                              (is_c e (S (S
                                                                (S (S (S (S
                                                                (S (S (S (S
                                                                (S (S (S (S
                                                                (S (S (S (S
                                                                (S (S (S (S
                                                                (S (S (S (S
                                                                (S (S (S (S
                                                                (S (S (S (S
                                                                (S (S (S (S
                                                                (S (S (S (S
                                                                (S (S (S (S
                                                                (S (S (S (S
                                                                (S (S (S (S
                                                                (S (S (S (S
                                                                (S (S (S (S
                                                                (S (S (S (S
                                                                (S (S (S (S
                                                                (S (S (S (S
                                                                (S (S (S (S
                                                                (S (S (S (S
                                                                (S (S (S (S
                                                                (S (S (S (S
                                                                (S (S (S (S
                                                                (S (S (S (S
                                                                (S (S (S
                                                                O))))))))))))))))))))))))))))))))))))))))))))))))))))))))))))))))))))))))))))))))))))))))))))))))))))))
                                                              (is_c e (S (S
                                                                (S (S (S (S
                                                                (S (S (S (S
                                                                (S (S (S (S
                                                                (S (S (S (S
                                                                (S (S (S (S
                                                                (S (S (S (S
                                                                (S (S (S (S
                                                                (S (S (S (S
                                                                (S (S (S (S
                                                                (S (S (S (S
                                                                (S (S (S (S
                                                                (S (S (S (S
                                                                (S (S (S (S
                                                                (S (S (S (S
                                                                (S (S (S (S
                                                                (S (S (S (S
                                                                (S (S (S
                                                                O))))))))))))))))))))))))))))))))))))))))))))))))))))))))))))))))))))))
                                                         then (match r2' with
                                                               | [] ->
                                                                 let sg = []
                                                                 in
                                                                 let (
                                                                   ed, r3) =
                                                                   span
                                                                    is_digit0
                                                                    r2' []
                                                                 in
                                                                 (match ed with
                                                                  | [] ->
                                                                    ([], r1)
                                                                  | _ :: _ ->
                                                                    ((e :: 
                                                                    (app sg
                                                                    ed)), r3))
                                                               | x :: y ->
                                                                 if (||)
                                                                    (is_c x
                                                                    (S (S (S
                                                                    (S (S (S
                                                                    (S (S (S
                                                                    (S (S (S
                                                                    (S (S (S
                                                                    (S (S (S
                                                                    (S (S (S
                                                                    (S (S (S
                                                                    (S (S (S
                                                                    (S (S (S
                                                                    (S (S (S
                                                                    (S (S (S
                                                                    (S (S (S
                                                                    (S (S (S
                                                                    (S
                                                                    O))))))))))))))))))))))))))))))))))))))))))))
                                                                    (is_c x
                                                                    (S (S (S
                                                                    (S (S (S
                                                                    (S (S (S
                                                                    (S (S (S
                                                                    (S (S (S
                                                                    (S (S (S
                                                                    (S (S (S
                                                                    (S (S (S
                                                                    (S (S (S
                                                                    (S (S (S
                                                                    (S (S (S
                                                                    (S (S (S
                                                                    (S (S (S
                                                                    (S (S (S
                                                                    (S (S (S
                                                                    O))))))))))))))))))))))))))))))))))))))))))))))
                                                                 then 
                                                                   let sg =
                                                                    x :: []
                                                                   in
                                                                   let (
                                                                    ed, r3) =
                                                                    span
                                                                    is_digit0
                                                                    y []
                                                                   in
                                                                   (match ed with
                                                                    | [] ->
                                                                    ([], r1)
                                                                    | _ :: _ ->
                                                                    ((e :: 
                                                                    (app sg
                                                                    ed)), r3))
                                                                 else 
                                                                   let sg = []
                                                                   in
                                                                   let (
                                                                    ed, r3) =
                                                                    span
                                                                    is_digit0
                                                                    r2' []
                                                                   in
                                                                   (match ed with
                                                                    | [] ->
                                                                    ([], r1)
                                                                    | _ :: _ ->
                                                                    ((e :: 
                                                                    (app sg
                                                                    ed)), r3)))
                                                         else ([], r1)
                                                     in
                                                     Some ((TNum
                                                     (app ip (app fp ep))),
                                                     r3))
                                        else if is_ident_start c
                                             then let (w, rest0) =
                                                    span is_ident_cont s []
                                                  in
                                                  let lw = map lower0 w in
                                                  (match rest0 with
                                                   | [] ->
                                                     (match keyword lw with
                                                      | Some k ->
                                                        Some ((TKw k), rest0)
                                                      | None ->
                                                        Some ((TIdent
                                                          (truncate_ident lw)),
                                                          rest0))
                                                   | q0 :: l ->
                                                     (match l with
                                                      | [] ->
                                                        if (&&)
                                                             (is_c q0 (S (S
                                                               (S (S (S (S (S
                                                               (S (S (S (S (S
                                                               (S (S (S (S (S
                                                               (S (S (S (S (S
                                                               (S (S (S (S (S
                                                               (S (S (S (S (S
                                                               (S (S (S (S (S
                                                               (S (S
                                                               O))))))))))))))))))))))))))))))))))))))))
                                                             ((||)
                                                               ((||)
                                                                 ((||)
                                                                   (beq lw
                                                                    (str
                                                                    ('e'::[])))
                                                                   (beq lw
                                                                    (str
                                                                    ('b'::[]))))
                                                                 (beq lw
                                                                   (str
                                                                    ('x'::[]))))
                                                               (beq lw
                                                                 (str
                                                                   ('n'::[]))))
                                                        then Some ((TBad
                                                               ('p'::('r'::('e'::('f'::('i'::('x'::('e'::('d'::(' '::('s'::('t'::('r'::('i'::('n'::('g'::[])))))))))))))))),
                                                               rest0)
                                                        else (match keyword lw with
                                                              | Some k ->
                                                                Some ((TKw
                                                                  k), rest0)
                                                              | None ->
                                                                Some ((TIdent
                                                                  (truncate_ident
                                                                    lw)),
                                                                  rest0))
                                                      | q2 :: _ ->
                                                        if (&&)
                                                             (is_c q0 (S (S
                                                               (S (S (S (S (S
                                                               (S (S (S (S (S
                                                               (S (S (S (S (S
                                                               (S (S (S (S (S
                                                               (S (S (S (S (S
                                                               (S (S (S (S (S
                                                               (S (S (S (S (S
                                                               (S (S
                                                               O))))))))))))))))))))))))))))))))))))))))
                                                             ((||)
                                                               ((||)
                                                                 ((||)
                                                                   (beq lw
                                                                    (str
                                                                    ('e'::[])))
                                                                   (beq lw
                                                                    (str
                                                                    ('b'::[]))))
                                                                 (beq lw
                                                                   (str
                                                                    ('x'::[]))))
                                                               (beq lw
                                                                 (str
                                                                   ('n'::[]))))
                                                        then Some ((TBad
                                                               ('p'::('r'::('e'::('f'::('i'::('x'::('e'::('d'::(' '::('s'::('t'::('r'::('i'::('n'::('g'::[])))))))))))))))),
                                                               rest0)
                                                        else if (&&)
                                                                  ((&&)
                                                                    (is_c q0
                                                                    (S (S (S
                                                                    (S (S (S
                                                                    (S (S (S
                                                                    (S (S (S
                                                                    (S (S (S
                                                                    (S (S (S
                                                                    (S (S (S
                                                                    (S (S (S
                                                                    (S (S (S
                                                                    (S (S (S
                                                                    (S (S (S
                                                                    (S (S (S
                                                                    (S (S
                                                                    O)))))))))))))))))))))))))))))))))))))))
                                                                    ((||)
                                                                    (is_c q2
                                                                    (S (S (S
                                                                    (S (S (S
                                                                    (S (S (S
                                                                    (S (S (S
                                                                    (S (S (S
                                                                    (S (S (S
                                                                    (S (S (S
                                                                    (S (S (S
                                                                    (S (S (S
                                                                    (S (S (S
                                                                    (S (S (S
                                                                    (S (S (S
                                                                    (S (S (S
                                                                    O))))))))))))))))))))))))))))))))))))))))
                                                                    (is_c q2
                                                                    (S (S (S
                                                                    (S (S (S
                                                                    (S (S (S
                                                                    (S (S (S
                                                                    (S (S (S
                                                                    (S (S (S
                                                                    (S (S (S
                                                                    (S (S (S
                                                                    (S (S (S
                                                                    (S (S (S
                                                                    (S (S (S
                                                                    (S
                                                                    O)))))))))))))))))))))))))))))))))))))
                                                                  (beq lw
                                                                    (str
                                                                    ('u'::[])))
                                                             then Some ((TBad
                                                                    ('u'::('n'::('i'::('c'::('o'::('d'::('e'::(' '::('e'::('s'::('c'::('a'::('p'::('e'::[]))))))))))))))),
                                                                    rest0)
                                                             else (match 
                                                                   keyword lw with
                                                                   | Some k ->
                                                                    Some
                                                                    ((TKw k),
                                                                    rest0)
                                                                   | None ->
                                                                    Some
                                                                    ((TIdent
                                                                    (truncate_ident
                                                                    lw)),
                                                                    rest0))))
                                             else if is_op_char c
                                                  then let (run0, _) =
                                                         span is_op_char s []
                                                       in
                                                       (match run0 with
                                                        | [] ->
                                                          let o = op_text run0
                                                          in
                                                          Some ((TOp
                                                          (if beq o
                                                                (str
                                                                  ('!'::('='::[])))
                                                           then str
                                                                  ('<'::('>'::[]))
                                                           else o)),
                                                          (skipn (length o) s))
                                                        | a :: l ->
                                                          (match l with
                                                           | [] ->
                                                             let o =
                                                               op_text run0
                                                             in
                                                             Some ((TOp
                                                             (if beq o
                                                                   (str
                                                                    ('!'::('='::[])))
                                                              then str
                                                                    ('<'::('>'::[]))
                                                              else o)),
                                                             (skipn
                                                               (length o) s))
                                                           | b :: _ ->
                                                             if (||)
                                                                  ((&&)
                                                                    (is_c a
                                                                    (S (S (S
                                                                    (S (S (S
                                                                    (S (S (S
                                                                    (S (S (S
                                                                    (S (S (S
                                                                    (S (S (S
                                                                    (S (S (S
                                                                    (S (S (S
                                                                    (S (S (S
                                                                    (S (S (S
                                                                    (S (S (S
                                                                    (S (S (S
                                                                    (S (S (S
                                                                    (S (S (S
                                                                    (S (S (S
                                                                    O))))))))))))))))))))))))))))))))))))))))))))))
                                                                    (is_c b
                                                                    (S (S (S
                                                                    (S (S (S
                                                                    (S (S (S
                                                                    (S (S (S
                                                                    (S (S (S
                                                                    (S (S (S
                                                                    (S (S (S
                                                                    (S (S (S
                                                                    (S (S (S
                                                                    (S (S (S
                                                                    (S (S (S
                                                                    (S (S (S
                                                                    (S (S (S
                                                                    (S (S (S
                                                                    (S (S (S
                                                                    O)))))))))))))))))))))))))))))))))))))))))))))))
                                                                  ((&&)
                                                                    (is_c a
                                                                    (S (S (S
                                                                    (S (S (S
                                                                    (S (S (S
                                                                    (S (S (S
                                                                    (S (S (S
                                                                    (S (S (S
                                                                    (S (S (S
                                                                    (S (S (S
                                                                    (S (S (S
                                                                    (S (S (S
                                                                    (S (S (S
                                                                    (S (S (S
                                                                    (S (S (S
                                                                    (S (S (S
                                                                    (S (S (S
                                                                    (S (S
                                                                    O))))))))))))))))))))))))))))))))))))))))))))))))
                                                                    (is_c b
                                                                    (S (S (S
                                                                    (S (S (S
                                                                    (S (S (S
                                                                    (S (S (S
                                                                    (S (S (S
                                                                    (S (S (S
                                                                    (S (S (S
                                                                    (S (S (S
                                                                    (S (S (S
                                                                    (S (S (S
                                                                    (S (S (S
                                                                    (S (S (S
                                                                    (S (S (S
                                                                    (S (S (S
                                                                    O))))))))))))))))))))))))))))))))))))))))))))
                                                             then Some ((TBad
                                                                    ('c'::('o'::('m'::('m'::('e'::('n'::('t'::[])))))))),
                                                                    [])
                                                             else let o =
                                                                    op_text
                                                                    run0
                                                                  in
                                                                  Some ((TOp
                                                                  (if 
                                                                    beq o
                                                                    (str
                                                                    ('!'::('='::[])))
                                                                   then 
                                                                    str
                                                                    ('<'::('>'::[]))
                                                                   else o)),
                                                                  (skipn
                                                                    (length o)
                                                                    s))))
                                                  else if (||)
                                                            ((||)
                                                              ((||)
                                                                (is_c c (S (S
                                                                  (S (S (S (S
                                                                  (S (S (S (S
                                                                  (S (S (S (S
                                                                  (S (S (S (S
                                                                  (S (S (S (S
                                                                  (S (S (S (S
                                                                  (S (S (S (S
                                                                  (S (S (S (S
                                                                  (S (S (S (S
                                                                  (S (S (S (S
                                                                  (S (S (S (S
                                                                  (S (S (S (S
                                                                  (S (S (S (S
                                                                  (S (S (S (S
                                                                  O)))))))))))))))))))))))))))))))))))))))))))))))))))))))))))
                                                                (is_c c (S (S
                                                                  (S (S (S (S
                                                                  (S (S (S (S
                                                                  (S (S (S (S
                                                                  (S (S (S (S
                                                                  (S (S (S (S
                                                                  (S (S (S (S
                                                                  (S (S (S (S
                                                                  (S (S (S (S
                                                                  (S (S (S (S
                                                                  (S (S (S (S
                                                                  (S (S (S (S
                                                                  O))))))))))))))))))))))))))))))))))))))))))))))))
                                                              (is_c c (S (S
                                                                (S (S (S (S
                                                                (S (S (S (S
                                                                (S (S (S (S
                                                                (S (S (S (S
                                                                (S (S (S (S
                                                                (S (S (S (S
                                                                (S (S (S (S
                                                                (S (S (S (S
                                                                (S (S (S (S
                                                                (S (S (S (S
                                                                (S (S (S (S
                                                                (S (S (S (S
                                                                (S (S (S (S
                                                                (S (S (S (S
                                                                (S (S (S (S
                                                                (S (S (S (S
                                                                (S (S (S (S
                                                                (S (S (S (S
                                                                (S (S (S (S
                                                                (S (S (S (S
                                                                (S (S (S (S
                                                                (S (S (S (S
                                                                (S
                                                                O)))))))))))))))))))))))))))))))))))))))))))))))))))))))))))))))))))))))))))))))))))))))))))))
                                                            (is_c c (S (S (S
                                                              (S (S (S (S (S
                                                              (S (S (S (S (S
                                                              (S (S (S (S (S
                                                              (S (S (S (S (S
                                                              (S (S (S (S (S
                                                              (S (S (S (S (S
                                                              (S (S (S (S (S
                                                              (S (S (S (S (S
                                                              (S (S (S (S (S
                                                              (S (S (S (S (S
                                                              (S (S (S (S (S
                                                              (S (S (S (S (S
                                                              (S (S (S (S (S
                                                              (S (S (S (S (S
                                                              (S (S (S (S (S
                                                              (S (S (S (S (S
                                                              (S (S (S (S (S
                                                              (S (S (S (S (S
                                                              O))))))))))))))))))))))))))))))))))))))))))))))))))))))))))))))))))))))))))))))))))))))))))))))
                                                       then Some ((TBad
                                                              ('s'::('e'::('l'::('f'::(' '::('c'::('h'::('a'::('r'::[])))))))))),
                                                              r)
                                                       else Some ((TBad
                                                              ('o'::('t'::('h'::('e'::('r'::(' '::('c'::('h'::('a'::('r'::('a'::('c'::('t'::('e'::('r'::[])))))))))))))))),
                                                              r))

(** val lex_all0 : nat -> bytes0 -> tok list **)

let rec lex_all0 fuel s =
  match fuel with
  | O -> (TBad ('f'::('u'::('e'::('l'::[]))))) :: []
  | S f ->
    (match next s with
     | Some p -> let (t, rest0) = p in t :: (lex_all0 f rest0)
     | None -> [])

(** val pg_lex : bytes0 -> tok list **)

let pg_lex s =
  lex_all0 (S (length s)) s

type ast =
| ACol of bytes0
| AStr of bytes0
| ANum of bool * bytes0
| AParam of bytes0
| ABool of bool * ast list
| ANot of ast
| AOp of bytes0 * ast * ast
| AUnary of bytes0 * ast
| AIn of ast * ast list
| ABetween of ast * ast * ast
| ASimilar of ast * ast

type pres0 =
| POk of ast * tok list
| PFail of char list

(** val cmp_op : bytes0 -> bool **)

let cmp_op o =
  existsb (beq o)
    (map str
      (('='::[]) :: (('<'::[]) :: (('>'::[]) :: (('<'::('='::[])) :: (('>'::('='::[])) :: (('<'::('>'::[])) :: (('!'::('='::[])) :: []))))))))

(** val addsub : bytes0 -> bool **)

let addsub o =
  (||) (beq o (str ('+'::[]))) (beq o (str ('-'::[])))

(** val muldiv : bytes0 -> bool **)

let muldiv o =
  (||) ((||) (beq o (str ('*'::[]))) (beq o (str ('/'::[]))))
    (beq o (str ('%'::[])))

(** val negate : ast -> ast **)

let negate a = match a with
| ANum (ng, s) -> ANum ((negb ng), s)
| _ -> AUnary ((str ('-'::[])), a)

(** val mk_and : ast -> ast -> ast **)

let mk_and l r =
  match l with
  | ABool (isand, xs) ->
    if isand
    then ABool (true, (app xs (r :: [])))
    else ABool (true, (l :: (r :: [])))
  | _ -> ABool (true, (l :: (r :: [])))

(** val mk_or : ast -> ast -> ast **)

let mk_or l r =
  match l with
  | ABool (isand, xs) ->
    if isand
    then ABool (false, (l :: (r :: [])))
    else ABool (false, (app xs (r :: [])))
  | _ -> ABool (false, (l :: (r :: [])))

(** val expr0 : nat -> nat -> bool -> tok list -> pres0 **)

let rec expr0 fuel minp restricted ts =
  match fuel with
  | O -> PFail ('f'::('u'::('e'::('l'::[]))))
  | S f ->
    let prim =
      match ts with
      | [] ->
        PFail
          ('s'::('y'::('n'::('t'::('a'::('x'::(' '::('e'::('r'::('r'::('o'::('r'::[]))))))))))))
      | t :: r ->
        (match t with
         | TIdent s -> POk ((ACol s), r)
         | TStr s -> POk ((AStr s), r)
         | TNum s -> POk ((ANum (false, s)), r)
         | TParam k -> POk ((AParam k), r)
         | TOp o ->
           if beq o (str ('-'::[]))
           then (match expr0 f (S (S (S (S (S (S (S (S (S (S O))))))))))
                         restricted r with
                 | POk (a, r') -> POk ((negate a), r')
                 | PFail why -> PFail why)
           else if beq o (str ('+'::[]))
                then (match expr0 f (S (S (S (S (S (S (S (S (S (S O))))))))))
                              restricted r with
                      | POk (a, r') -> POk ((AUnary (o, a)), r')
                      | PFail why -> PFail why)
                else if (||) ((||) (cmp_op o) (muldiv o))
                          (beq o (str ('^'::[])))
                     then PFail
                            ('n'::('o'::('t'::(' '::('a'::(' '::('p'::('r'::('e'::('f'::('i'::('x'::(' '::('o'::('p'::('e'::('r'::('a'::('t'::('o'::('r'::[])))))))))))))))))))))
                     else (match expr0 f (S (S (S (S (S (S (S O)))))))
                                   restricted r with
                           | POk (a, r') -> POk ((AUnary (o, a)), r')
                           | PFail why -> PFail why)
         | TKw k ->
           (match k with
            | KNot ->
              if restricted
              then PFail
                     ('N'::('O'::('T'::(' '::('i'::('n'::(' '::('b'::('_'::('e'::('x'::('p'::('r'::[])))))))))))))
              else (match expr0 f (S (S (S O))) false r with
                    | POk (a, r') -> POk ((ANot a), r')
                    | PFail why -> PFail why)
            | _ ->
              PFail
                ('s'::('y'::('n'::('t'::('a'::('x'::(' '::('e'::('r'::('r'::('o'::('r'::[])))))))))))))
         | TLP ->
           (match expr0 f O false r with
            | POk (a, rest0) ->
              (match rest0 with
               | [] ->
                 PFail
                   ('e'::('x'::('p'::('e'::('c'::('t'::('e'::('d'::(' '::(')'::[]))))))))))
               | t0 :: r' ->
                 (match t0 with
                  | TRP -> POk (a, r')
                  | _ ->
                    PFail
                      ('e'::('x'::('p'::('e'::('c'::('t'::('e'::('d'::(' '::(')'::[]))))))))))))
            | PFail why -> PFail why)
         | _ ->
           PFail
             ('s'::('y'::('n'::('t'::('a'::('x'::(' '::('e'::('r'::('r'::('o'::('r'::[])))))))))))))
    in
    (match prim with
     | POk (l, rest0) ->
       let rec loop k l0 rest1 lastcmp =
         match k with
         | O -> PFail ('f'::('u'::('e'::('l'::[]))))
         | S k' ->
           (match rest1 with
            | [] -> POk (l0, rest1)
            | t :: r ->
              (match t with
               | TOp o ->
                 if cmp_op o
                 then if Nat.ltb (S (S (S (S O)))) minp
                      then POk (l0, rest1)
                      else if lastcmp
                           then PFail
                                  ('n'::('o'::('n'::('-'::('a'::('s'::('s'::('o'::('c'::('i'::('a'::('t'::('i'::('v'::('e'::(' '::('c'::('o'::('m'::('p'::('a'::('r'::('i'::('s'::('o'::('n'::[]))))))))))))))))))))))))))
                           else (match expr0 f (S (S (S (S (S O)))))
                                         restricted r with
                                 | POk (x, r') ->
                                   loop k' (AOp (o, l0, x)) r' true
                                 | PFail why -> PFail why)
                 else if addsub o
                      then if Nat.ltb (S (S (S (S (S (S (S O))))))) minp
                           then POk (l0, rest1)
                           else (match expr0 f (S (S (S (S (S (S (S (S
                                         O)))))))) restricted r with
                                 | POk (x, r') ->
                                   loop k' (AOp (o, l0, x)) r' false
                                 | PFail why -> PFail why)
                      else if muldiv o
                           then if Nat.ltb (S (S (S (S (S (S (S (S O))))))))
                                     minp
                                then POk (l0, rest1)
                                else (match expr0 f (S (S (S (S (S (S (S (S
                                              (S O))))))))) restricted r with
                                      | POk (x, r') ->
                                        loop k' (AOp (o, l0, x)) r' false
                                      | PFail why -> PFail why)
                           else if beq o (str ('^'::[]))
                                then if Nat.ltb (S (S (S (S (S (S (S (S (S
                                          O))))))))) minp
                                     then POk (l0, rest1)
                                     else (match expr0 f (S (S (S (S (S (S (S
                                                   (S (S (S O))))))))))
                                                   restricted r with
                                           | POk (x, r') ->
                                             loop k' (AOp (o, l0, x)) r' false
                                           | PFail why -> PFail why)
                                else if Nat.ltb (S (S (S (S (S (S O)))))) minp
                                     then POk (l0, rest1)
                                     else (match expr0 f (S (S (S (S (S (S (S
                                                   O))))))) restricted r with
                                           | POk (x, r') ->
                                             loop k' (AOp (o, l0, x)) r' false
                                           | PFail why -> PFail why)
               | TKw k0 ->
                 (match k0 with
                  | KAnd ->
                    if (||) restricted (Nat.ltb (S (S O)) minp)
                    then POk (l0, rest1)
                    else (match expr0 f (S (S (S O))) false r with
                          | POk (x, r') -> loop k' (mk_and l0 x) r' false
                          | PFail why -> PFail why)
                  | KOr ->
                    if (||) restricted (Nat.ltb (S O) minp)
                    then POk (l0, rest1)
                    else (match expr0 f (S (S O)) false r with
                          | POk (x, r') -> loop k' (mk_or l0 x) r' false
                          | PFail why -> PFail why)
                  | KBetween ->
                    if (||) restricted (Nat.ltb (S (S (S (S (S O))))) minp)
                    then POk (l0, rest1)
                    else (match expr0 f (S (S (S (S (S (S O)))))) true r with
                          | POk (lo, rest2) ->
                            (match rest2 with
                             | [] ->
                               PFail
                                 ('e'::('x'::('p'::('e'::('c'::('t'::('e'::('d'::(' '::('A'::('N'::('D'::(' '::('i'::('n'::(' '::('B'::('E'::('T'::('W'::('E'::('E'::('N'::[])))))))))))))))))))))))
                             | t0 :: r2 ->
                               (match t0 with
                                | TKw k1 ->
                                  (match k1 with
                                   | KAnd ->
                                     (match expr0 f (S (S (S (S (S (S O))))))
                                              false r2 with
                                      | POk (hi, r3) ->
                                        loop k' (ABetween (l0, lo, hi)) r3
                                          false
                                      | PFail why -> PFail why)
                                   | _ ->
                                     PFail
                                       ('e'::('x'::('p'::('e'::('c'::('t'::('e'::('d'::(' '::('A'::('N'::('D'::(' '::('i'::('n'::(' '::('B'::('E'::('T'::('W'::('E'::('E'::('N'::[]))))))))))))))))))))))))
                                | _ ->
                                  PFail
                                    ('e'::('x'::('p'::('e'::('c'::('t'::('e'::('d'::(' '::('A'::('N'::('D'::(' '::('i'::('n'::(' '::('B'::('E'::('T'::('W'::('E'::('E'::('N'::[])))))))))))))))))))))))))
                          | PFail why -> PFail why)
                  | KIn ->
                    (match r with
                     | [] -> POk (l0, rest1)
                     | t0 :: r0 ->
                       (match t0 with
                        | TLP ->
                          if (||) restricted
                               (Nat.ltb (S (S (S (S (S O))))) minp)
                          then POk (l0, rest1)
                          else let rec items j r1 acc =
                                 match j with
                                 | O -> PFail ('f'::('u'::('e'::('l'::[]))))
                                 | S j' ->
                                   (match expr0 f O false r1 with
                                    | POk (x, rest2) ->
                                      (match rest2 with
                                       | [] ->
                                         PFail
                                           ('e'::('x'::('p'::('e'::('c'::('t'::('e'::('d'::(' '::(','::(' '::('o'::('r'::(' '::(')'::[])))))))))))))))
                                       | t1 :: r' ->
                                         (match t1 with
                                          | TRP ->
                                            loop k' (AIn (l0,
                                              (rev (x :: acc)))) r' false
                                          | TComma -> items j' r' (x :: acc)
                                          | _ ->
                                            PFail
                                              ('e'::('x'::('p'::('e'::('c'::('t'::('e'::('d'::(' '::(','::(' '::('o'::('r'::(' '::(')'::[])))))))))))))))))
                                    | PFail why -> PFail why)
                               in items (S (length r0)) r0 []
                        | _ -> POk (l0, rest1)))
                  | KSimilar ->
                    (match r with
                     | [] -> POk (l0, rest1)
                     | t0 :: r0 ->
                       (match t0 with
                        | TKw k1 ->
                          (match k1 with
                           | KTo ->
                             if (||) restricted
                                  (Nat.ltb (S (S (S (S (S O))))) minp)
                             then POk (l0, rest1)
                             else (match expr0 f (S (S (S (S (S (S O))))))
                                           false r0 with
                                   | POk (p, r') ->
                                     loop k' (ASimilar (l0, p)) r' false
                                   | PFail why -> PFail why)
                           | _ -> POk (l0, rest1))
                        | _ -> POk (l0, rest1)))
                  | _ -> POk (l0, rest1))
               | _ -> POk (l0, rest1)))
       in loop (S (length rest0)) l rest0 false
     | PFail w -> PFail w)

(** val pg_parse : tok list -> ast option **)

let pg_parse ts =
  match expr0 (S (S (length ts))) O false ts with
  | POk (a, rest0) -> (match rest0 with
                       | [] -> Some a
                       | _ :: _ -> None)
  | PFail _ -> None

(** val pg_read : bytes0 -> ast option **)

let pg_read s =
  let ts = pg_lex s in
  if existsb (fun t -> match t with
                       | TBad _ -> true
                       | _ -> false) ts
  then None
  else pg_parse ts

(** val leaf_val : value -> bool **)

let leaf_val = function
| VInt _ -> true
| VFloat _ -> true
| VStr _ -> true
| VCol _ -> true
| _ -> false

(** val is_leaf0 : expr -> bool **)

let is_leaf0 = function
| E (l, op, right, _, _) ->
  (match l with
   | VStr _ ->
     (match op with
      | Literal -> (match right with
                    | VNil -> leaf_val l
                    | _ -> false)
      | Wild -> (match right with
                 | VNil -> true
                 | _ -> false)
      | Regexp -> (match right with
                   | VNil -> true
                   | _ -> false)
      | _ -> false)
   | _ ->
     (match op with
      | Literal -> (match right with
                    | VNil -> leaf_val l
                    | _ -> false)
      | _ -> false))

(** val is_pattern : expr -> bool **)

let is_pattern = function
| E (left, op, right, _, _) ->
  (match left with
   | VStr _ ->
     (match op with
      | Wild -> (match right with
                 | VNil -> true
                 | _ -> false)
      | Regexp -> (match right with
                   | VNil -> true
                   | _ -> false)
      | _ -> false)
   | _ -> false)

(** val is_plain : expr -> bool **)

let is_plain = function
| E (l, op, right, _, _) ->
  (match op with
   | Literal -> (match right with
                 | VNil -> leaf_val l
                 | _ -> false)
   | _ -> false)

(** val wf : bool -> expr -> bool **)

let rec wf strict e = match e with
| E (l, op, r, _, _) ->
  (match op with
   | Undefined -> false
   | And ->
     (match l with
      | VExp a ->
        (match r with
         | VExp b -> (&&) (wf strict a) (wf strict b)
         | _ -> false)
      | _ -> false)
   | Or ->
     (match l with
      | VExp a ->
        (match r with
         | VExp b -> (&&) (wf strict a) (wf strict b)
         | _ -> false)
      | _ -> false)
   | Equals ->
     (match l with
      | VExp f ->
        (match r with
         | VExp v ->
           (&&)
             ((&&) (if strict then is_leaf0 f else wf strict f) (wf strict v))
             (match op with
              | Equals -> negb (is_pattern v)
              | _ -> true)
         | _ -> false)
      | _ -> false)
   | Like ->
     (match l with
      | VExp f ->
        (match r with
         | VExp v ->
           (&&) (if strict then is_leaf0 f else wf strict f) (is_pattern v)
         | _ -> false)
      | _ -> false)
   | Range ->
     (match l with
      | VExp f ->
        (match r with
         | VBound (mn, mx, _) ->
           (match mn with
            | VExp a ->
              (match mx with
               | VExp b ->
                 if strict
                 then (&&) ((&&) (is_leaf0 f) (is_leaf0 a)) (is_leaf0 b)
                 else (&&) ((&&) (wf strict f) (wf strict a)) (wf strict b)
               | _ -> false)
            | _ -> false)
         | _ -> false)
      | _ -> false)
   | Literal -> is_leaf0 e
   | Wild -> is_leaf0 e
   | Regexp -> is_leaf0 e
   | Greater ->
     (match l with
      | VExp f ->
        (match r with
         | VExp v ->
           (&&)
             ((&&) (if strict then is_leaf0 f else wf strict f) (wf strict v))
             (match op with
              | Equals -> negb (is_pattern v)
              | _ -> true)
         | _ -> false)
      | _ -> false)
   | Less ->
     (match l with
      | VExp f ->
        (match r with
         | VExp v ->
           (&&)
             ((&&) (if strict then is_leaf0 f else wf strict f) (wf strict v))
             (match op with
              | Equals -> negb (is_pattern v)
              | _ -> true)
         | _ -> false)
      | _ -> false)
   | GreaterEq ->
     (match l with
      | VExp f ->
        (match r with
         | VExp v ->
           (&&)
             ((&&) (if strict then is_leaf0 f else wf strict f) (wf strict v))
             (match op with
              | Equals -> negb (is_pattern v)
              | _ -> true)
         | _ -> false)
      | _ -> false)
   | LessEq ->
     (match l with
      | VExp f ->
        (match r with
         | VExp v ->
           (&&)
             ((&&) (if strict then is_leaf0 f else wf strict f) (wf strict v))
             (match op with
              | Equals -> negb (is_pattern v)
              | _ -> true)
         | _ -> false)
      | _ -> false)
   | In ->
     (match l with
      | VExp f ->
        (match r with
         | VExp e0 ->
           let E (left, op0, right, _, _) = e0 in
           (match left with
            | VList lits ->
              (match op0 with
               | List ->
                 (match right with
                  | VNil ->
                    (&&)
                      ((&&) (if strict then is_leaf0 f else wf strict f)
                        (Nat.leb (S (S O)) (length lits)))
                      (forallb is_plain lits)
                  | _ -> false)
               | _ -> false)
            | _ -> false)
         | _ -> false)
      | _ -> false)
   | List -> false
   | _ ->
     (match l with
      | VExp a -> (match r with
                   | VNil -> wf strict a
                   | _ -> false)
      | _ -> false))

(** val colwrap : expr -> expr **)

let colwrap t =
  match e_left t with
  | VStr s -> lit (VCol s)
  | _ -> t

(** val scw : char list -> expr -> expr **)

let scw df e =
  if eqb0 df []
  then e
  else if is_leaf_op (e_op e)
       then empty_e (VExp (lit (VCol df)))
              (if should_use_like (VExp e) then Like else Equals) (VExp e)
       else e

(** val eqx : expr -> expr -> expr **)

let eqx f v =
  empty_e (VExp (colwrap f))
    (if should_use_like (VExp v) then Like else Equals) (VExp v)

(** val cmpx : operator -> expr -> expr -> expr **)

let cmpx op f v =
  empty_e (VExp (colwrap f)) op (VExp v)

(** val rangex : expr -> expr -> expr -> bool -> expr **)

let rangex f a b incl =
  empty_e (VExp (colwrap f)) Range (VBound ((VExp a), (VExp b), incl))

(** val inx : expr -> expr list -> expr **)

let inx f lits =
  empty_e (VExp (colwrap f)) In (VExp (empty_e (VList lits) List VNil))

(** val mk2 : operator -> expr -> expr -> expr **)

let mk2 op l r =
  empty_e (VExp l) op (VExp r)

(** val mk1 : operator -> expr -> expr **)

let mk1 op l =
  empty_e (VExp l) op VNil

(** val mk_fuzzy : expr -> z -> expr **)

let mk_fuzzy l d =
  E ((VExp l), Fuzzy, VNil, one_bits, d)

(** val mk_boost : expr -> z -> expr **)

let mk_boost l f =
  E ((VExp l), Boost, VNil, f, (Zpos XH))

(** val spelling : toktype -> char list **)

let spelling = function
| TEqual -> '='::[]
| TGreater -> '>'::[]
| TLess -> '<'::[]
| TColon -> ':'::[]
| TPlus -> '+'::[]
| TMinus -> '-'::[]
| TTilde -> '~'::[]
| TCarrot -> '^'::[]
| TNot -> 'N'::('O'::('T'::[]))
| TAnd -> 'A'::('N'::('D'::[]))
| TOr -> 'O'::('R'::[])
| TRParen -> ')'::[]
| TLParen -> '('::[]
| TLCurly -> '{'::[]
| TRCurly -> '}'::[]
| TTO -> 'T'::('O'::[])
| TLSquare -> '['::[]
| TRSquare -> ']'::[]
| _ -> []

(** val tk : toktype -> token **)

let tk t =
  { typ = t; val0 = (spelling t) }

(** val cmp_op0 : token -> bool -> operator **)

let cmp_op0 cmp withEq =
  if is TGreater cmp
  then if withEq then GreaterEq else Greater
  else if withEq then LessEq else Less

(** val fe_node : expr -> expr -> expr **)

let fe_node f v =
  let (lits, ok0) = chained_or_literals [] v in
  if (&&) ok0 (Nat.ltb (S O) (length lits)) then inx f lits else eqx f v

type qt =
| QTerm of token
| QFv of token * token * token
| QCmp of token * token * token * token option * token
| QRange of token * token * token * token * token * token * token
| QFe of token * token * qt
| QAnd of qt * qt
| QOr of qt * qt
| QNot of qt
| QMust of qt
| QMustNot of qt
| QBoost of qt * token option
| QFuzzy of qt * token option
| QPar of qt

(** val pr : qt -> token list **)

let rec pr = function
| QTerm tok0 -> tok0 :: []
| QFv (f, ct, v) -> f :: (ct :: (v :: []))
| QCmp (f, ct, cmp, eq, v) ->
  (match eq with
   | Some e -> f :: (ct :: (cmp :: (e :: (v :: []))))
   | None -> f :: (ct :: (cmp :: (v :: []))))
| QRange (f, ct, op, lo, to0, hi, cl) ->
  f :: (ct :: (op :: (lo :: (to0 :: (hi :: (cl :: []))))))
| QFe (f, ct, a) ->
  f :: (ct :: ((tk TLParen) :: (app (pr a) ((tk TRParen) :: []))))
| QAnd (a, b) -> app (pr a) ((tk TAnd) :: (pr b))
| QOr (a, b) -> app (pr a) ((tk TOr) :: (pr b))
| QNot a -> (tk TNot) :: (pr a)
| QMust a -> (tk TPlus) :: (pr a)
| QMustNot a -> (tk TMinus) :: (pr a)
| QBoost (a, n1) ->
  app (pr a)
    ((tk TCarrot) :: (match n1 with
                      | Some tok0 -> tok0 :: []
                      | None -> []))
| QFuzzy (a, n1) ->
  app (pr a)
    ((tk TTilde) :: (match n1 with
                     | Some tok0 -> tok0 :: []
                     | None -> []))
| QPar a -> (tk TLParen) :: (app (pr a) ((tk TRParen) :: []))

(** val want : oracle -> qt -> expr **)

let rec want o = function
| QTerm tok0 -> parse_literal o tok0
| QFv (f, _, v) -> eqx (parse_literal o f) (parse_literal o v)
| QCmp (f, _, cmp, eq, v) ->
  cmpx (cmp_op0 cmp (match eq with
                     | Some _ -> true
                     | None -> false)) (parse_literal o f) (parse_literal o v)
| QRange (f, _, op, lo, _, hi, cl) ->
  rangex (parse_literal o f) (parse_literal o lo) (parse_literal o hi)
    ((&&) (is TLSquare op) (is TRSquare cl))
| QFe (f, _, a) -> fe_node (parse_literal o f) (want o a)
| QAnd (a, b) -> mk2 And (want o a) (want o b)
| QOr (a, b) -> mk2 Or (want o a) (want o b)
| QNot a -> mk1 Not (want o a)
| QMust a -> mk1 Must (want o a)
| QMustNot a -> mk1 MustNot (want o a)
| QBoost (a, n1) ->
  (match n1 with
   | Some tok0 ->
     mk_boost (want o a)
       (match to_positive_float o (parse_literal o tok0) with
        | Some f -> f
        | None -> one_bits)
   | None -> mk_boost (want o a) one_bits)
| QFuzzy (a, n1) ->
  (match n1 with
   | Some tok0 ->
     mk_fuzzy (want o a)
       (match e_left (parse_literal o tok0) with
        | VInt d -> d
        | _ -> Zpos XH)
   | None -> mk_fuzzy (want o a) (Zpos XH))
| QPar a -> want o a

(** val sci : char list -> expr -> expr **)

let rec sci f e = match e with
| E (left, op, r, b, z0) ->
  (match left with
   | VExp t ->
     (match op with
      | Undefined -> e
      | And ->
        (match r with
         | VExp r0 ->
           E ((VExp (scw f (sci f t))), And, (VExp (scw f (sci f r0))), b, z0)
         | _ -> e)
      | Or ->
        (match r with
         | VExp r0 ->
           E ((VExp (scw f (sci f t))), Or, (VExp (scw f (sci f r0))), b, z0)
         | _ -> e)
      | Not ->
        (match r with
         | VNil -> E ((VExp (scw f (sci f t))), Not, VNil, b, z0)
         | _ -> e)
      | Range ->
        (match r with
         | VBound (mn, mx, i) ->
           (match mn with
            | VExp x ->
              (match mx with
               | VExp y ->
                 E ((VExp (sci f t)), Range, (VBound ((VExp (sci f x)), (VExp
                   (sci f y)), i)), b, z0)
               | _ -> e)
            | _ -> e)
         | _ -> e)
      | Must ->
        (match r with
         | VNil -> E ((VExp (scw f (sci f t))), Must, VNil, b, z0)
         | _ -> e)
      | MustNot ->
        (match r with
         | VNil -> E ((VExp (scw f (sci f t))), MustNot, VNil, b, z0)
         | _ -> e)
      | Boost ->
        (match r with
         | VNil -> E ((VExp (scw f (sci f t))), Boost, VNil, b, z0)
         | _ -> e)
      | Fuzzy ->
        (match r with
         | VNil -> E ((VExp (scw f (sci f t))), Fuzzy, VNil, b, z0)
         | _ -> e)
      | Literal -> e
      | Wild -> e
      | Regexp -> e
      | In -> E ((VExp (sci f t)), In, r, b, z0)
      | List -> e
      | x ->
        (match r with
         | VExp v -> E ((VExp (sci f t)), x, (VExp (sci f v)), b, z0)
         | _ -> e))
   | _ -> e)

(** val scope : char list -> expr -> expr **)

let scope f e =
  scw f (sci f e)

(** val clean : char list -> expr -> bool **)

let clean f =
  let rec clean0 = function
  | E (l, _, r, _, _) -> (&&) (vclean l) (vclean r)
  and vclean = function
  | VStr s -> negb (eqb0 s f)
  | VCol s -> negb (eqb0 s f)
  | VExp e -> clean0 e
  | VList l ->
    let rec cl = function
    | [] -> true
    | x :: r -> (&&) (clean0 x) (cl r)
    in cl l
  | VBound (a, b, _) -> (&&) (vclean a) (vclean b)
  | _ -> true
  in clean0

(** val dq : char **)

let dq =
  '"'

(** val qm : char **)

let qm =
  '?'

(** val qcnt : bool -> char list -> nat **)

let rec qcnt inq = function
| [] -> O
| c::r ->
  add (if (&&) ((=) c qm) (negb inq) then S O else O)
    (qcnt (if (=) c dq then negb inq else inq) r)

(** val gok : expr -> bool **)

let rec gok = function
| E (l, op, r, _, _) ->
  (&&)
    ((&&)
      (match op with
       | Like -> (match r with
                  | VExp x -> is_pattern x
                  | _ -> false)
       | Range ->
         (match r with
          | VBound (mn, mx, _) ->
            (match mn with
             | VExp a ->
               (match mx with
                | VExp b -> (&&) (is_leaf0 a) (is_leaf0 b)
                | _ -> false)
             | _ -> false)
          | _ -> false)
       | _ -> true) (gv l)) (gv r)

(** val gv : value -> bool **)

and gv = function
| VExp e -> gok e
| VList l ->
  let rec all = function
  | [] -> true
  | x :: r -> (&&) (gok x) (all r)
  in all l
| VBound (a, b, _) -> (&&) (gv a) (gv b)
| _ -> true

(** val dsh : expr -> bool **)

let rec dsh e =
  (||) (is_leaf0 e)
    (let E (l, _, r, _, _) = e in
     (&&)
       (match l with
        | VExp a -> dsh a
        | VList xs -> forallb is_leaf0 xs
        | _ -> false)
       (match r with
        | VNil -> true
        | VExp c -> dsh c
        | VBound (mn, mx, _) ->
          (&&) (match mn with
                | VNil -> true
                | VExp x -> dsh x
                | _ -> false)
            (match mx with
             | VNil -> true
             | VExp x -> dsh x
             | _ -> false)
        | _ -> false))

type rval =
| RNum of q
| RStr of char list

type row = char list -> rval option

(** val pow2 : z -> z **)

let pow2 n1 =
  Z.pow (Zpos (XO XH)) n1

(** val q_of_float_bits : z -> q option **)

let q_of_float_bits b =
  let u =
    if Z.ltb b Z0
    then Z.add b (Zpos (XO (XO (XO (XO (XO (XO (XO (XO (XO (XO (XO (XO (XO
           (XO (XO (XO (XO (XO (XO (XO (XO (XO (XO (XO (XO (XO (XO (XO (XO
           (XO (XO (XO (XO (XO (XO (XO (XO (XO (XO (XO (XO (XO (XO (XO (XO
           (XO (XO (XO (XO (XO (XO (XO (XO (XO (XO (XO (XO (XO (XO (XO (XO
           (XO (XO (XO
           XH)))))))))))))))))))))))))))))))))))))))))))))))))))))))))))))))))
    else b
  in
  let sign =
    Z.div u (Zpos (XO (XO (XO (XO (XO (XO (XO (XO (XO (XO (XO (XO (XO (XO (XO
      (XO (XO (XO (XO (XO (XO (XO (XO (XO (XO (XO (XO (XO (XO (XO (XO (XO (XO
      (XO (XO (XO (XO (XO (XO (XO (XO (XO (XO (XO (XO (XO (XO (XO (XO (XO (XO
      (XO (XO (XO (XO (XO (XO (XO (XO (XO (XO (XO (XO
      XH))))))))))))))))))))))))))))))))))))))))))))))))))))))))))))))))
  in
  let ex =
    Z.modulo
      (Z.div u (Zpos (XO (XO (XO (XO (XO (XO (XO (XO (XO (XO (XO (XO (XO (XO
        (XO (XO (XO (XO (XO (XO (XO (XO (XO (XO (XO (XO (XO (XO (XO (XO (XO
        (XO (XO (XO (XO (XO (XO (XO (XO (XO (XO (XO (XO (XO (XO (XO (XO (XO
        (XO (XO (XO (XO
        XH)))))))))))))))))))))))))))))))))))))))))))))))))))))) (Zpos (XO
      (XO (XO (XO (XO (XO (XO (XO (XO (XO (XO XH))))))))))))
  in
  let frac =
    Z.modulo u (Zpos (XO (XO (XO (XO (XO (XO (XO (XO (XO (XO (XO (XO (XO (XO
      (XO (XO (XO (XO (XO (XO (XO (XO (XO (XO (XO (XO (XO (XO (XO (XO (XO (XO
      (XO (XO (XO (XO (XO (XO (XO (XO (XO (XO (XO (XO (XO (XO (XO (XO (XO (XO
      (XO (XO XH)))))))))))))))))))))))))))))))))))))))))))))))))))))
  in
  if Z.eqb ex (Zpos (XI (XI (XI (XI (XI (XI (XI (XI (XI (XI XH)))))))))))
  then None
  else let m =
         if Z.eqb ex Z0
         then frac
         else Z.add frac (Zpos (XO (XO (XO (XO (XO (XO (XO (XO (XO (XO (XO
                (XO (XO (XO (XO (XO (XO (XO (XO (XO (XO (XO (XO (XO (XO (XO
                (XO (XO (XO (XO (XO (XO (XO (XO (XO (XO (XO (XO (XO (XO (XO
                (XO (XO (XO (XO (XO (XO (XO (XO (XO (XO (XO
                XH)))))))))))))))))))))))))))))))))))))))))))))))))))))
       in
       let e =
         if Z.eqb ex Z0
         then Zneg (XO (XI (XO (XO (XI (XI (XO (XO (XO (XO XH))))))))))
         else Z.sub ex (Zpos (XI (XI (XO (XO (XI (XI (XO (XO (XO (XO
                XH)))))))))))
       in
       let m0 = if Z.eqb sign (Zpos XH) then Z.opp m else m in
       Some
       (if Z.leb Z0 e
        then inject_Z (Z.mul m0 (pow2 e))
        else { qnum = m0; qden = (Z.to_pos (pow2 (Z.opp e))) })

(** val str_cmp : char list -> char list -> comparison **)

let rec str_cmp a b =
  match a with
  | [] -> (match b with
           | [] -> Eq
           | _::_ -> Lt)
  | x::r ->
    (match b with
     | [] -> Gt
     | y::s ->
       (match Nat.compare (nat_of_ascii x) (nat_of_ascii y) with
        | Eq -> str_cmp r s
        | x0 -> x0))

type cmpop =
| CEq
| CLt
| CLe
| CGt
| CGe

(** val holds_cmp : cmpop -> comparison -> bool **)

let holds_cmp op c =
  match op with
  | CEq -> (match c with
            | Eq -> true
            | _ -> false)
  | CLt -> (match c with
            | Lt -> true
            | _ -> false)
  | CLe -> (match c with
            | Gt -> false
            | _ -> true)
  | CGt -> (match c with
            | Gt -> true
            | _ -> false)
  | CGe -> (match c with
            | Lt -> false
            | _ -> true)

(** val leaf_const : expr -> rval option **)

let leaf_const = function
| E (left, op, right, _, _) ->
  (match left with
   | VInt z0 ->
     (match op with
      | Literal ->
        (match right with
         | VNil -> Some (RNum (inject_Z z0))
         | _ -> None)
      | _ -> None)
   | VFloat f ->
     (match op with
      | Literal ->
        (match right with
         | VNil ->
           (match q_of_float_bits f with
            | Some q0 -> Some (RNum q0)
            | None -> None)
         | _ -> None)
      | _ -> None)
   | VStr s ->
     (match op with
      | Literal -> (match right with
                    | VNil -> Some (RStr s)
                    | _ -> None)
      | _ -> None)
   | _ -> None)

(** val cmp_vals : cmpop -> rval -> rval -> bool option **)

let cmp_vals op a b =
  match a with
  | RNum x ->
    (match b with
     | RNum y -> Some (holds_cmp op (qcompare x y))
     | RStr _ -> None)
  | RStr x ->
    (match b with
     | RNum _ -> None
     | RStr y -> Some (holds_cmp op (str_cmp x y)))

(** val wild_match_fuel : nat -> char list -> char list -> bool **)

let rec wild_match_fuel fuel p s =
  match fuel with
  | O -> false
  | S f ->
    (match p with
     | [] -> (match s with
              | [] -> true
              | _::_ -> false)
     | c::p' ->
       (* If this appears, you're using Ascii internals. Please don't *)
 (fun f c ->
  let n = Char.code c in
  let h i = (n land (1 lsl i)) <> 0 in
  f (h 0) (h 1) (h 2) (h 3) (h 4) (h 5) (h 6) (h 7))
         (fun b b0 b1 b2 b3 b4 b5 b6 ->
         if b
         then if b0
              then if b1
                   then if b2
                        then if b3
                             then if b4
                                  then if b5
                                       then (match s with
                                             | [] -> false
                                             | d::s' ->
                                               (&&) ((=) c d)
                                                 (wild_match_fuel f p' s'))
                                       else if b6
                                            then (match s with
                                                  | [] -> false
                                                  | d::s' ->
                                                    (&&) ((=) c d)
                                                      (wild_match_fuel f p'
                                                        s'))
                                            else (match s with
                                                  | [] -> false
                                                  | _::s' ->
                                                    wild_match_fuel f p' s')
                                  else (match s with
                                        | [] -> false
                                        | d::s' ->
                                          (&&) ((=) c d)
                                            (wild_match_fuel f p' s'))
                             else (match s with
                                   | [] -> false
                                   | d::s' ->
                                     (&&) ((=) c d) (wild_match_fuel f p' s'))
                        else (match s with
                              | [] -> false
                              | d::s' ->
                                (&&) ((=) c d) (wild_match_fuel f p' s'))
                   else (match s with
                         | [] -> false
                         | d::s' -> (&&) ((=) c d) (wild_match_fuel f p' s'))
              else (match s with
                    | [] -> false
                    | d::s' -> (&&) ((=) c d) (wild_match_fuel f p' s'))
         else if b0
              then if b1
                   then (match s with
                         | [] -> false
                         | d::s' -> (&&) ((=) c d) (wild_match_fuel f p' s'))
                   else if b2
                        then if b3
                             then (match s with
                                   | [] -> false
                                   | d::s' ->
                                     (&&) ((=) c d) (wild_match_fuel f p' s'))
                             else if b4
                                  then if b5
                                       then (match s with
                                             | [] -> false
                                             | d::s' ->
                                               (&&) ((=) c d)
                                                 (wild_match_fuel f p' s'))
                                       else if b6
                                            then (match s with
                                                  | [] -> false
                                                  | d::s' ->
                                                    (&&) ((=) c d)
                                                      (wild_match_fuel f p'
                                                        s'))
                                            else (||)
                                                   (wild_match_fuel f p' s)
                                                   (match s with
                                                    | [] -> false
                                                    | _::s' ->
                                                      wild_match_fuel f p s')
                                  else (match s with
                                        | [] -> false
                                        | d::s' ->
                                          (&&) ((=) c d)
                                            (wild_match_fuel f p' s'))
                        else (match s with
                              | [] -> false
                              | d::s' ->
                                (&&) ((=) c d) (wild_match_fuel f p' s'))
              else (match s with
                    | [] -> false
                    | d::s' -> (&&) ((=) c d) (wild_match_fuel f p' s')))
         c)

(** val wild_match : char list -> char list -> bool **)

let wild_match p s =
  wild_match_fuel (S (add (length0 p) (length0 s))) p s

(** val field_of : value -> char list option **)

let field_of = function
| VExp e ->
  let E (left, op, right, _, _) = e in
  (match left with
   | VCol f ->
     (match op with
      | Literal -> (match right with
                    | VNil -> Some f
                    | _ -> None)
      | _ -> None)
   | _ -> None)
| _ -> None

(** val is_star : value -> bool **)

let is_star = function
| VExp e ->
  let E (left, op, right, _, _) = e in
  (match left with
   | VStr s ->
     (match op with
      | Wild -> (match right with
                 | VNil -> eqb0 s ('*'::[])
                 | _ -> false)
      | _ -> false)
   | _ -> false)
| _ -> false

(** val opt_and : bool option -> bool option -> bool option **)

let opt_and a b =
  match a with
  | Some x -> (match b with
               | Some y -> Some ((&&) x y)
               | None -> None)
  | None -> None

(** val opt_or : bool option -> bool option -> bool option **)

let opt_or a b =
  match a with
  | Some x -> (match b with
               | Some y -> Some ((||) x y)
               | None -> None)
  | None -> None

(** val cmp_leaf : row -> cmpop -> char list -> value -> bool option **)

let cmp_leaf r op f = function
| VExp lf ->
  (match r f with
   | Some a ->
     (match leaf_const lf with
      | Some b -> cmp_vals op a b
      | None -> None)
   | None -> None)
| _ -> None

(** val in_list : row -> char list -> expr list -> bool option **)

let rec in_list r f = function
| [] -> Some false
| x :: rest0 -> opt_or (cmp_leaf r CEq f (VExp x)) (in_list r f rest0)

(** val qsem : row -> expr -> bool option **)

let rec qsem r = function
| E (l, op, rt, _, _) ->
  (match op with
   | And ->
     (match l with
      | VExp a ->
        (match rt with
         | VExp b -> opt_and (qsem r a) (qsem r b)
         | _ -> None)
      | _ -> None)
   | Or ->
     (match l with
      | VExp a ->
        (match rt with
         | VExp b -> opt_or (qsem r a) (qsem r b)
         | _ -> None)
      | _ -> None)
   | Equals ->
     (match field_of l with
      | Some f -> cmp_leaf r CEq f rt
      | None -> None)
   | Like ->
     (match field_of l with
      | Some f ->
        (match rt with
         | VExp e0 ->
           let E (left, op0, right, _, _) = e0 in
           (match left with
            | VStr p ->
              (match op0 with
               | Wild ->
                 (match right with
                  | VNil ->
                    (match r f with
                     | Some r0 ->
                       (match r0 with
                        | RNum _ -> None
                        | RStr s -> Some (wild_match p s))
                     | None -> None)
                  | _ -> None)
               | _ -> None)
            | _ -> None)
         | _ -> None)
      | None -> None)
   | Not -> (match l with
             | VExp a -> option_map negb (qsem r a)
             | _ -> None)
   | Range ->
     (match field_of l with
      | Some f ->
        (match rt with
         | VBound (lo, hi, incl) ->
           let lower1 =
             if is_star lo
             then Some true
             else cmp_leaf r (if incl then CGe else CGt) f lo
           in
           let upper =
             if is_star hi
             then Some true
             else cmp_leaf r (if incl then CLe else CLt) f hi
           in
           opt_and lower1 upper
         | _ -> None)
      | None -> None)
   | Must -> (match l with
              | VExp a -> qsem r a
              | _ -> None)
   | MustNot ->
     (match l with
      | VExp a -> option_map negb (qsem r a)
      | _ -> None)
   | Greater ->
     (match field_of l with
      | Some f -> cmp_leaf r CGt f rt
      | None -> None)
   | Less ->
     (match field_of l with
      | Some f -> cmp_leaf r CLt f rt
      | None -> None)
   | GreaterEq ->
     (match field_of l with
      | Some f -> cmp_leaf r CGe f rt
      | None -> None)
   | LessEq ->
     (match field_of l with
      | Some f -> cmp_leaf r CLe f rt
      | None -> None)
   | In ->
     (match field_of l with
      | Some f ->
        (match rt with
         | VExp e0 ->
           let E (left, op0, right, _, _) = e0 in
           (match left with
            | VList lits ->
              (match op0 with
               | List ->
                 (match right with
                  | VNil -> in_list r f lits
                  | _ -> None)
               | _ -> None)
            | _ -> None)
         | _ -> None)
      | None -> None)
   | _ -> None)

(** val sstr : bytes0 -> char list **)

let sstr =
  string_of_list_ascii

(** val dec_digits :
    char list -> z -> nat -> ((z * nat) * char list) option **)

let rec dec_digits s acc n1 =
  match s with
  | [] -> Some ((acc, n1), [])
  | c :: r ->
    let k = nat_of_ascii c in
    if (&&)
         (Nat.leb (S (S (S (S (S (S (S (S (S (S (S (S (S (S (S (S (S (S (S (S
           (S (S (S (S (S (S (S (S (S (S (S (S (S (S (S (S (S (S (S (S (S (S
           (S (S (S (S (S (S
           O)))))))))))))))))))))))))))))))))))))))))))))))) k)
         (Nat.leb k (S (S (S (S (S (S (S (S (S (S (S (S (S (S (S (S (S (S (S
           (S (S (S (S (S (S (S (S (S (S (S (S (S (S (S (S (S (S (S (S (S (S
           (S (S (S (S (S (S (S (S (S (S (S (S (S (S (S (S
           O))))))))))))))))))))))))))))))))))))))))))))))))))))))))))
    then dec_digits r
           (Z.add (Z.mul acc (Zpos (XO (XI (XO XH)))))
             (Z.of_nat
               (sub k (S (S (S (S (S (S (S (S (S (S (S (S (S (S (S (S (S (S
                 (S (S (S (S (S (S (S (S (S (S (S (S (S (S (S (S (S (S (S (S
                 (S (S (S (S (S (S (S (S (S (S
                 O))))))))))))))))))))))))))))))))))))))))))))))))))) (S n1)
    else Some ((acc, n1), s)

(** val q_of_decimal : char list -> q option **)

let q_of_decimal s =
  match dec_digits s Z0 O with
  | Some p ->
    let (p0, rest0) = p in
    let (ip, n1) = p0 in
    (match rest0 with
     | [] ->
       let p1 = ((ip, O), rest0) in
       let n2 = O in
       let (p2, rest2) = p1 in
       let (mant, scale) = p2 in
       if Nat.eqb (add n1 n2) O
       then None
       else let base = { qnum = mant; qden =
              (Coq_Pos.pow (XO (XI (XO XH))) (Coq_Pos.of_nat scale)) }
            in
            let base0 = if Nat.eqb scale O then inject_Z mant else base in
            (match rest2 with
             | [] -> Some base0
             | e :: r ->
               if (||) ((=) e 'e') ((=) e 'E')
               then (match r with
                     | [] ->
                       let neg = false in
                       (match dec_digits r Z0 O with
                        | Some p3 ->
                          let (p4, l) = p3 in
                          let (ex, n3) = p4 in
                          (match n3 with
                           | O -> None
                           | S _ ->
                             (match l with
                              | [] ->
                                let p5 =
                                  inject_Z (Z.pow (Zpos (XO (XI (XO XH)))) ex)
                                in
                                Some
                                (if neg then qdiv base0 p5 else qmult base0 p5)
                              | _ :: _ -> None))
                        | None -> None)
                     | a :: t ->
                       (* If this appears, you're using Ascii internals. Please don't *)
 (fun f c ->
  let n = Char.code c in
  let h i = (n land (1 lsl i)) <> 0 in
  f (h 0) (h 1) (h 2) (h 3) (h 4) (h 5) (h 6) (h 7))
                         (fun b b0 b1 b2 b3 b4 b5 b6 ->
                         if b
                         then if b0
                              then if b1
                                   then let neg = false in
                                        (match dec_digits r Z0 O with
                                         | Some p3 ->
                                           let (p4, l) = p3 in
                                           let (ex, n3) = p4 in
                                           (match n3 with
                                            | O -> None
                                            | S _ ->
                                              (match l with
                                               | [] ->
                                                 let p5 =
                                                   inject_Z
                                                     (Z.pow (Zpos (XO (XI (XO
                                                       XH)))) ex)
                                                 in
                                                 Some
                                                 (if neg
                                                  then qdiv base0 p5
                                                  else qmult base0 p5)
                                               | _ :: _ -> None))
                                         | None -> None)
                                   else if b2
                                        then if b3
                                             then let neg = false in
                                                  (match dec_digits r Z0 O with
                                                   | Some p3 ->
                                                     let (p4, l) = p3 in
                                                     let (ex, n3) = p4 in
                                                     (match n3 with
                                                      | O -> None
                                                      | S _ ->
                                                        (match l with
                                                         | [] ->
                                                           let p5 =
                                                             inject_Z
                                                               (Z.pow (Zpos
                                                                 (XO (XI (XO
                                                                 XH)))) ex)
                                                           in
                                                           Some
                                                           (if neg
                                                            then qdiv base0 p5
                                                            else qmult base0
                                                                   p5)
                                                         | _ :: _ -> None))
                                                   | None -> None)
                                             else if b4
                                                  then if b5
                                                       then let neg = false in
                                                            (match dec_digits
                                                                    r Z0 O with
                                                             | Some p3 ->
                                                               let (p4, l) =
                                                                 p3
                                                               in
                                                               let (ex, n3) =
                                                                 p4
                                                               in
                                                               (match n3 with
                                                                | O -> None
                                                                | S _ ->
                                                                  (match l with
                                                                   | [] ->
                                                                    let p5 =
                                                                    inject_Z
                                                                    (Z.pow
                                                                    (Zpos (XO
                                                                    (XI (XO
                                                                    XH)))) ex)
                                                                    in
                                                                    Some
                                                                    (
                                                                    if neg
                                                                    then 
                                                                    qdiv
                                                                    base0 p5
                                                                    else 
                                                                    qmult
                                                                    base0 p5)
                                                                   | _ :: _ ->
                                                                    None))
                                                             | None -> None)
                                                       else if b6
                                                            then let neg =
                                                                   false
                                                                 in
                                                                 (match 
                                                                  dec_digits
                                                                    r Z0 O with
                                                                  | Some p3 ->
                                                                    let (
                                                                    p4, l) =
                                                                    p3
                                                                    in
                                                                    let (
                                                                    ex, n3) =
                                                                    p4
                                                                    in
                                                                    (
                                                                    match n3 with
                                                                    | O ->
                                                                    None
                                                                    | S _ ->
                                                                    (match l with
                                                                    | [] ->
                                                                    let p5 =
                                                                    inject_Z
                                                                    (Z.pow
                                                                    (Zpos (XO
                                                                    (XI (XO
                                                                    XH)))) ex)
                                                                    in
                                                                    Some
                                                                    (
                                                                    if neg
                                                                    then 
                                                                    qdiv
                                                                    base0 p5
                                                                    else 
                                                                    qmult
                                                                    base0 p5)
                                                                    | _ :: _ ->
                                                                    None))
                                                                  | None ->
                                                                    None)
                                                            else let neg =
                                                                   false
                                                                 in
                                                                 (match 
                                                                  dec_digits
                                                                    t Z0 O with
                                                                  | Some p3 ->
                                                                    let (
                                                                    p4, l) =
                                                                    p3
                                                                    in
                                                                    let (
                                                                    ex, n3) =
                                                                    p4
                                                                    in
                                                                    (
                                                                    match n3 with
                                                                    | O ->
                                                                    None
                                                                    | S _ ->
                                                                    (match l with
                                                                    | [] ->
                                                                    let p5 =
                                                                    inject_Z
                                                                    (Z.pow
                                                                    (Zpos (XO
                                                                    (XI (XO
                                                                    XH)))) ex)
                                                                    in
                                                                    Some
                                                                    (
                                                                    if neg
                                                                    then 
                                                                    qdiv
                                                                    base0 p5
                                                                    else 
                                                                    qmult
                                                                    base0 p5)
                                                                    | _ :: _ ->
                                                                    None))
                                                                  | None ->
                                                                    None)
                                                  else let neg = false in
                                                       (match dec_digits r Z0
                                                                O with
                                                        | Some p3 ->
                                                          let (p4, l) = p3 in
                                                          let (ex, n3) = p4 in
                                                          (match n3 with
                                                           | O -> None
                                                           | S _ ->
                                                             (match l with
                                                              | [] ->
                                                                let p5 =
                                                                  inject_Z
                                                                    (Z.pow
                                                                    (Zpos (XO
                                                                    (XI (XO
                                                                    XH)))) ex)
                                                                in
                                                                Some
                                                                (if neg
                                                                 then 
                                                                   qdiv base0
                                                                    p5
                                                                 else 
                                                                   qmult
                                                                    base0 p5)
                                                              | _ :: _ -> None))
                                                        | None -> None)
                                        else let neg = false in
                                             (match dec_digits r Z0 O with
                                              | Some p3 ->
                                                let (p4, l) = p3 in
                                                let (ex, n3) = p4 in
                                                (match n3 with
                                                 | O -> None
                                                 | S _ ->
                                                   (match l with
                                                    | [] ->
                                                      let p5 =
                                                        inject_Z
                                                          (Z.pow (Zpos (XO
                                                            (XI (XO XH)))) ex)
                                                      in
                                                      Some
                                                      (if neg
                                                       then qdiv base0 p5
                                                       else qmult base0 p5)
                                                    | _ :: _ -> None))
                                              | None -> None)
                              else if b1
                                   then if b2
                                        then if b3
                                             then let neg = false in
                                                  (match dec_digits r Z0 O with
                                                   | Some p3 ->
                                                     let (p4, l) = p3 in
                                                     let (ex, n3) = p4 in
                                                     (match n3 with
                                                      | O -> None
                                                      | S _ ->
                                                        (match l with
                                                         | [] ->
                                                           let p5 =
                                                             inject_Z
                                                               (Z.pow (Zpos
                                                                 (XO (XI (XO
                                                                 XH)))) ex)
                                                           in
                                                           Some
                                                           (if neg
                                                            then qdiv base0 p5
                                                            else qmult base0
                                                                   p5)
                                                         | _ :: _ -> None))
                                                   | None -> None)
                                             else if b4
                                                  then if b5
                                                       then let neg = false in
                                                            (match dec_digits
                                                                    r Z0 O with
                                                             | Some p3 ->
                                                               let (p4, l) =
                                                                 p3
                                                               in
                                                               let (ex, n3) =
                                                                 p4
                                                               in
                                                               (match n3 with
                                                                | O -> None
                                                                | S _ ->
                                                                  (match l with
                                                                   | [] ->
                                                                    let p5 =
                                                                    inject_Z
                                                                    (Z.pow
                                                                    (Zpos (XO
                                                                    (XI (XO
                                                                    XH)))) ex)
                                                                    in
                                                                    Some
                                                                    (
                                                                    if neg
                                                                    then 
                                                                    qdiv
                                                                    base0 p5
                                                                    else 
                                                                    qmult
                                                                    base0 p5)
                                                                   | _ :: _ ->
                                                                    None))
                                                             | None -> None)
                                                       else if b6
                                                            then let neg =
                                                                   false
                                                                 in
                                                                 (match 
                                                                  dec_digits
                                                                    r Z0 O with
                                                                  | Some p3 ->
                                                                    let (
                                                                    p4, l) =
                                                                    p3
                                                                    in
                                                                    let (
                                                                    ex, n3) =
                                                                    p4
                                                                    in
                                                                    (
                                                                    match n3 with
                                                                    | O ->
                                                                    None
                                                                    | S _ ->
                                                                    (match l with
                                                                    | [] ->
                                                                    let p5 =
                                                                    inject_Z
                                                                    (Z.pow
                                                                    (Zpos (XO
                                                                    (XI (XO
                                                                    XH)))) ex)
                                                                    in
                                                                    Some
                                                                    (
                                                                    if neg
                                                                    then 
                                                                    qdiv
                                                                    base0 p5
                                                                    else 
                                                                    qmult
                                                                    base0 p5)
                                                                    | _ :: _ ->
                                                                    None))
                                                                  | None ->
                                                                    None)
                                                            else let neg =
                                                                   true
                                                                 in
                                                                 (match 
                                                                  dec_digits
                                                                    t Z0 O with
                                                                  | Some p3 ->
                                                                    let (
                                                                    p4, l) =
                                                                    p3
                                                                    in
                                                                    let (
                                                                    ex, n3) =
                                                                    p4
                                                                    in
                                                                    (
                                                                    match n3 with
                                                                    | O ->
                                                                    None
                                                                    | S _ ->
                                                                    (match l with
                                                                    | [] ->
                                                                    let p5 =
                                                                    inject_Z
                                                                    (Z.pow
                                                                    (Zpos (XO
                                                                    (XI (XO
                                                                    XH)))) ex)
                                                                    in
                                                                    Some
                                                                    (
                                                                    if neg
                                                                    then 
                                                                    qdiv
                                                                    base0 p5
                                                                    else 
                                                                    qmult
                                                                    base0 p5)
                                                                    | _ :: _ ->
                                                                    None))
                                                                  | None ->
                                                                    None)
                                                  else let neg = false in
                                                       (match dec_digits r Z0
                                                                O with
                                                        | Some p3 ->
                                                          let (p4, l) = p3 in
                                                          let (ex, n3) = p4 in
                                                          (match n3 with
                                                           | O -> None
                                                           | S _ ->
                                                             (match l with
                                                              | [] ->
                                                                let p5 =
                                                                  inject_Z
                                                                    (Z.pow
                                                                    (Zpos (XO
                                                                    (XI (XO
                                                                    XH)))) ex)
                                                                in
                                                                Some
                                                                (if neg
                                                                 then 
                                                                   qdiv base0
                                                                    p5
                                                                 else 
                                                                   qmult
                                                                    base0 p5)
                                                              | _ :: _ -> None))
                                                        | None -> None)
                                        else let neg = false in
                                             (match dec_digits r Z0 O with
                                              | Some p3 ->
                                                let (p4, l) = p3 in
                                                let (ex, n3) = p4 in
                                                (match n3 with
                                                 | O -> None
                                                 | S _ ->
                                                   (match l with
                                                    | [] ->
                                                      let p5 =
                                                        inject_Z
                                                          (Z.pow (Zpos (XO
                                                            (XI (XO XH)))) ex)
                                                      in
                                                      Some
                                                      (if neg
                                                       then qdiv base0 p5
                                                       else qmult base0 p5)
                                                    | _ :: _ -> None))
                                              | None -> None)
                                   else let neg = false in
                                        (match dec_digits r Z0 O with
                                         | Some p3 ->
                                           let (p4, l) = p3 in
                                           let (ex, n3) = p4 in
                                           (match n3 with
                                            | O -> None
                                            | S _ ->
                                              (match l with
                                               | [] ->
                                                 let p5 =
                                                   inject_Z
                                                     (Z.pow (Zpos (XO (XI (XO
                                                       XH)))) ex)
                                                 in
                                                 Some
                                                 (if neg
                                                  then qdiv base0 p5
                                                  else qmult base0 p5)
                                               | _ :: _ -> None))
                                         | None -> None)
                         else let neg = false in
                              (match dec_digits r Z0 O with
                               | Some p3 ->
                                 let (p4, l) = p3 in
                                 let (ex, n3) = p4 in
                                 (match n3 with
                                  | O -> None
                                  | S _ ->
                                    (match l with
                                     | [] ->
                                       let p5 =
                                         inject_Z
                                           (Z.pow (Zpos (XO (XI (XO XH)))) ex)
                                       in
                                       Some
                                       (if neg
                                        then qdiv base0 p5
                                        else qmult base0 p5)
                                     | _ :: _ -> None))
                               | None -> None))
                         a)
               else None)
     | a :: r ->
       (* If this appears, you're using Ascii internals. Please don't *)
 (fun f c ->
  let n = Char.code c in
  let h i = (n land (1 lsl i)) <> 0 in
  f (h 0) (h 1) (h 2) (h 3) (h 4) (h 5) (h 6) (h 7))
         (fun b b0 b1 b2 b3 b4 b5 b6 ->
         if b
         then let p1 = ((ip, O), rest0) in
              let n2 = O in
              let (p2, rest2) = p1 in
              let (mant, scale) = p2 in
              if Nat.eqb (add n1 n2) O
              then None
              else let base = { qnum = mant; qden =
                     (Coq_Pos.pow (XO (XI (XO XH))) (Coq_Pos.of_nat scale)) }
                   in
                   let base0 = if Nat.eqb scale O then inject_Z mant else base
                   in
                   (match rest2 with
                    | [] -> Some base0
                    | e :: r0 ->
                      if (||) ((=) e 'e') ((=) e 'E')
                      then (match r0 with
                            | [] ->
                              let neg = false in
                              (match dec_digits r0 Z0 O with
                               | Some p3 ->
                                 let (p4, l) = p3 in
                                 let (ex, n3) = p4 in
                                 (match n3 with
                                  | O -> None
                                  | S _ ->
                                    (match l with
                                     | [] ->
                                       let p5 =
                                         inject_Z
                                           (Z.pow (Zpos (XO (XI (XO XH)))) ex)
                                       in
                                       Some
                                       (if neg
                                        then qdiv base0 p5
                                        else qmult base0 p5)
                                     | _ :: _ -> None))
                               | None -> None)
                            | a0 :: t ->
                              (* If this appears, you're using Ascii internals. Please don't *)
 (fun f c ->
  let n = Char.code c in
  let h i = (n land (1 lsl i)) <> 0 in
  f (h 0) (h 1) (h 2) (h 3) (h 4) (h 5) (h 6) (h 7))
                                (fun b7 b8 b9 b10 b11 b12 b13 b14 ->
                                if b7
                                then if b8
                                     then if b9
                                          then let neg = false in
                                               (match dec_digits r0 Z0 O with
                                                | Some p3 ->
                                                  let (p4, l) = p3 in
                                                  let (ex, n3) = p4 in
                                                  (match n3 with
                                                   | O -> None
                                                   | S _ ->
                                                     (match l with
                                                      | [] ->
                                                        let p5 =
                                                          inject_Z
                                                            (Z.pow (Zpos (XO
                                                              (XI (XO XH))))
                                                              ex)
                                                        in
                                                        Some
                                                        (if neg
                                                         then qdiv base0 p5
                                                         else qmult base0 p5)
                                                      | _ :: _ -> None))
                                                | None -> None)
                                          else if b10
                                               then if b11
                                                    then let neg = false in
                                                         (match dec_digits r0
                                                                  Z0 O with
                                                          | Some p3 ->
                                                            let (p4, l) = p3
                                                            in
                                                            let (ex, n3) = p4
                                                            in
                                                            (match n3 with
                                                             | O -> None
                                                             | S _ ->
                                                               (match l with
                                                                | [] ->
                                                                  let p5 =
                                                                    inject_Z
                                                                    (Z.pow
                                                                    (Zpos (XO
                                                                    (XI (XO
                                                                    XH)))) ex)
                                                                  in
                                                                  Some
                                                                  (if neg
                                                                   then 
                                                                    qdiv
                                                                    base0 p5
                                                                   else 
                                                                    qmult
                                                                    base0 p5)
                                                                | _ :: _ ->
                                                                  None))
                                                          | None -> None)
                                                    else if b12
                                                         then if b13
                                                              then let neg =
                                                                    false
                                                                   in
                                                                   (match 
                                                                    dec_digits
                                                                    r0 Z0 O with
                                                                    | Some p3 ->
                                                                    let (
                                                                    p4, l) =
                                                                    p3
                                                                    in
                                                                    let (
                                                                    ex, n3) =
                                                                    p4
                                                                    in
                                                                    (
                                                                    match n3 with
                                                                    | O ->
                                                                    None
                                                                    | S _ ->
                                                                    (match l with
                                                                    | [] ->
                                                                    let p5 =
                                                                    inject_Z
                                                                    (Z.pow
                                                                    (Zpos (XO
                                                                    (XI (XO
                                                                    XH)))) ex)
                                                                    in
                                                                    Some
                                                                    (
                                                                    if neg
                                                                    then 
                                                                    qdiv
                                                                    base0 p5
                                                                    else 
                                                                    qmult
                                                                    base0 p5)
                                                                    | _ :: _ ->
                                                                    None))
                                                                    | None ->
                                                                    None)
                                                              else if b14
                                                                   then 
                                                                    let neg =
                                                                    false
                                                                    in
                                                                    (
                                                                    match 
                                                                    dec_digits
                                                                    r0 Z0 O with
                                                                    | Some p3 ->
                                                                    let (
                                                                    p4, l) =
                                                                    p3
                                                                    in
                                                                    let (
                                                                    ex, n3) =
                                                                    p4
                                                                    in
                                                                    (
                                                                    match n3 with
                                                                    | O ->
                                                                    None
                                                                    | S _ ->
                                                                    (match l with
                                                                    | [] ->
                                                                    let p5 =
                                                                    inject_Z
                                                                    (Z.pow
                                                                    (Zpos (XO
                                                                    (XI (XO
                                                                    XH)))) ex)
                                                                    in
                                                                    Some
                                                                    (
                                                                    if neg
                                                                    then 
                                                                    qdiv
                                                                    base0 p5
                                                                    else 
                                                                    qmult
                                                                    base0 p5)
                                                                    | _ :: _ ->
                                                                    None))
                                                                    | None ->
                                                                    None)
                                                                   else 
                                                                    let neg =
                                                                    false
                                                                    in
                                                                    (
                                                                    match 
                                                                    dec_digits
                                                                    t Z0 O with
                                                                    | Some p3 ->
                                                                    let (
                                                                    p4, l) =
                                                                    p3
                                                                    in
                                                                    let (
                                                                    ex, n3) =
                                                                    p4
                                                                    in
                                                                    (
                                                                    match n3 with
                                                                    | O ->
                                                                    None
                                                                    | S _ ->
                                                                    (match l with
                                                                    | [] ->
                                                                    let p5 =
                                                                    inject_Z
                                                                    (Z.pow
                                                                    (Zpos (XO
                                                                    (XI (XO
                                                                    XH)))) ex)
                                                                    in
                                                                    Some
                                                                    (
                                                                    if neg
                                                                    then 
                                                                    qdiv
                                                                    base0 p5
                                                                    else 
                                                                    qmult
                                                                    base0 p5)
                                                                    | _ :: _ ->
                                                                    None))
                                                                    | None ->
                                                                    None)
                                                         else let neg = false
                                                              in
                                                              (match 
                                                               dec_digits r0
                                                                 Z0 O with
                                                               | Some p3 ->
                                                                 let (
                                                                   p4, l) = p3
                                                                 in
                                                                 let (
                                                                   ex, n3) =
                                                                   p4
                                                                 in
                                                                 (match n3 with
                                                                  | O -> None
                                                                  | S _ ->
                                                                    (match l with
                                                                    | [] ->
                                                                    let p5 =
                                                                    inject_Z
                                                                    (Z.pow
                                                                    (Zpos (XO
                                                                    (XI (XO
                                                                    XH)))) ex)
                                                                    in
                                                                    Some
                                                                    (
                                                                    if neg
                                                                    then 
                                                                    qdiv
                                                                    base0 p5
                                                                    else 
                                                                    qmult
                                                                    base0 p5)
                                                                    | _ :: _ ->
                                                                    None))
                                                               | None -> None)
                                               else let neg = false in
                                                    (match dec_digits r0 Z0 O with
                                                     | Some p3 ->
                                                       let (p4, l) = p3 in
                                                       let (ex, n3) = p4 in
                                                       (match n3 with
                                                        | O -> None
                                                        | S _ ->
                                                          (match l with
                                                           | [] ->
                                                             let p5 =
                                                               inject_Z
                                                                 (Z.pow (Zpos
                                                                   (XO (XI
                                                                   (XO XH))))
                                                                   ex)
                                                             in
                                                             Some
                                                             (if neg
                                                              then qdiv base0
                                                                    p5
                                                              else qmult
                                                                    base0 p5)
                                                           | _ :: _ -> None))
                                                     | None -> None)
                                     else if b9
                                          then if b10
                                               then if b11
                                                    then let neg = false in
                                                         (match dec_digits r0
                                                                  Z0 O with
                                                          | Some p3 ->
                                                            let (p4, l) = p3
                                                            in
                                                            let (ex, n3) = p4
                                                            in
                                                            (match n3 with
                                                             | O -> None
                                                             | S _ ->
                                                               (match l with
                                                                | [] ->
                                                                  let p5 =
                                                                    inject_Z
                                                                    (Z.pow
                                                                    (Zpos (XO
                                                                    (XI (XO
                                                                    XH)))) ex)
                                                                  in
                                                                  Some
                                                                  (if neg
                                                                   then 
                                                                    qdiv
                                                                    base0 p5
                                                                   else 
                                                                    qmult
                                                                    base0 p5)
                                                                | _ :: _ ->
                                                                  None))
                                                          | None -> None)
                                                    else if b12
                                                         then if b13
                                                              then let neg =
                                                                    false
                                                                   in
                                                                   (match 
                                                                    dec_digits
                                                                    r0 Z0 O with
                                                                    | Some p3 ->
                                                                    let (
                                                                    p4, l) =
                                                                    p3
                                                                    in
                                                                    let (
                                                                    ex, n3) =
                                                                    p4
                                                                    in
                                                                    (
                                                                    match n3 with
                                                                    | O ->
                                                                    None
                                                                    | S _ ->
                                                                    (match l with
                                                                    | [] ->
                                                                    let p5 =
                                                                    inject_Z
                                                                    (Z.pow
                                                                    (Zpos (XO
                                                                    (XI (XO
                                                                    XH)))) ex)
                                                                    in
                                                                    Some
                                                                    (
                                                                    if neg
                                                                    then 
                                                                    qdiv
                                                                    base0 p5
                                                                    else 
                                                                    qmult
                                                                    base0 p5)
                                                                    | _ :: _ ->
                                                                    None))
                                                                    | None ->
                                                                    None)
                                                              else if b14
                                                                   then 
                                                                    let neg =
                                                                    false
                                                                    in
                                                                    (
                                                                    match 
                                                                    dec_digits
                                                                    r0 Z0 O with
                                                                    | Some p3 ->
                                                                    let (
                                                                    p4, l) =
                                                                    p3
                                                                    in
                                                                    let (
                                                                    ex, n3) =
                                                                    p4
                                                                    in
                                                                    (
                                                                    match n3 with
                                                                    | O ->
                                                                    None
                                                                    | S _ ->
                                                                    (match l with
                                                                    | [] ->
                                                                    let p5 =
                                                                    inject_Z
                                                                    (Z.pow
                                                                    (Zpos (XO
                                                                    (XI (XO
                                                                    XH)))) ex)
                                                                    in
                                                                    Some
                                                                    (
                                                                    if neg
                                                                    then 
                                                                    qdiv
                                                                    base0 p5
                                                                    else 
                                                                    qmult
                                                                    base0 p5)
                                                                    | _ :: _ ->
                                                                    None))
                                                                    | None ->
                                                                    None)
                                                                   else 
                                                                    let neg =
                                                                    true
                                                                    in
                                                                    (
                                                                    match 
                                                                    dec_digits
                                                                    t Z0 O with
                                                                    | Some p3 ->
                                                                    let (
                                                                    p4, l) =
                                                                    p3
                                                                    in
                                                                    let (
                                                                    ex, n3) =
                                                                    p4
                                                                    in
                                                                    (
                                                                    match n3 with
                                                                    | O ->
                                                                    None
                                                                    | S _ ->
                                                                    (match l with
                                                                    | [] ->
                                                                    let p5 =
                                                                    inject_Z
                                                                    (Z.pow
                                                                    (Zpos (XO
                                                                    (XI (XO
                                                                    XH)))) ex)
                                                                    in
                                                                    Some
                                                                    (
                                                                    if neg
                                                                    then 
                                                                    qdiv
                                                                    base0 p5
                                                                    else 
                                                                    qmult
                                                                    base0 p5)
                                                                    | _ :: _ ->
                                                                    None))
                                                                    | None ->
                                                                    None)
                                                         else let neg = false
                                                              in
                                                              (match 
                                                               dec_digits r0
                                                                 Z0 O with
                                                               | Some p3 ->
                                                                 let (
                                                                   p4, l) = p3
                                                                 in
                                                                 let (
                                                                   ex, n3) =
                                                                   p4
                                                                 in
                                                                 (match n3 with
                                                                  | O -> None
                                                                  | S _ ->
                                                                    (match l with
                                                                    | [] ->
                                                                    let p5 =
                                                                    inject_Z
                                                                    (Z.pow
                                                                    (Zpos (XO
                                                                    (XI (XO
                                                                    XH)))) ex)
                                                                    in
                                                                    Some
                                                                    (
                                                                    if neg
                                                                    then 
                                                                    qdiv
                                                                    base0 p5
                                                                    else 
                                                                    qmult
                                                                    base0 p5)
                                                                    | _ :: _ ->
                                                                    None))
                                                               | None -> None)
                                               else let neg = false in
                                                    (match dec_digits r0 Z0 O with
                                                     | Some p3 ->
                                                       let (p4, l) = p3 in
                                                       let (ex, n3) = p4 in
                                                       (match n3 with
                                                        | O -> None
                                                        | S _ ->
                                                          (match l with
                                                           | [] ->
                                                             let p5 =
                                                               inject_Z
                                                                 (Z.pow (Zpos
                                                                   (XO (XI
                                                                   (XO XH))))
                                                                   ex)
                                                             in
                                                             Some
                                                             (if neg
                                                              then qdiv base0
                                                                    p5
                                                              else qmult
                                                                    base0 p5)
                                                           | _ :: _ -> None))
                                                     | None -> None)
                                          else let neg = false in
                                               (match dec_digits r0 Z0 O with
                                                | Some p3 ->
                                                  let (p4, l) = p3 in
                                                  let (ex, n3) = p4 in
                                                  (match n3 with
                                                   | O -> None
                                                   | S _ ->
                                                     (match l with
                                                      | [] ->
                                                        let p5 =
                                                          inject_Z
                                                            (Z.pow (Zpos (XO
                                                              (XI (XO XH))))
                                                              ex)
                                                        in
                                                        Some
                                                        (if neg
                                                         then qdiv base0 p5
                                                         else qmult base0 p5)
                                                      | _ :: _ -> None))
                                                | None -> None)
                                else let neg = false in
                                     (match dec_digits r0 Z0 O with
                                      | Some p3 ->
                                        let (p4, l) = p3 in
                                        let (ex, n3) = p4 in
                                        (match n3 with
                                         | O -> None
                                         | S _ ->
                                           (match l with
                                            | [] ->
                                              let p5 =
                                                inject_Z
                                                  (Z.pow (Zpos (XO (XI (XO
                                                    XH)))) ex)
                                              in
                                              Some
                                              (if neg
                                               then qdiv base0 p5
                                               else qmult base0 p5)
                                            | _ :: _ -> None))
                                      | None -> None))
                                a0)
                      else None)
         else if b0
              then if b1
                   then if b2
                        then if b3
                             then let p1 = ((ip, O), rest0) in
                                  let n2 = O in
                                  let (p2, rest2) = p1 in
                                  let (mant, scale) = p2 in
                                  if Nat.eqb (add n1 n2) O
                                  then None
                                  else let base = { qnum = mant; qden =
                                         (Coq_Pos.pow (XO (XI (XO XH)))
                                           (Coq_Pos.of_nat scale)) }
                                       in
                                       let base0 =
                                         if Nat.eqb scale O
                                         then inject_Z mant
                                         else base
                                       in
                                       (match rest2 with
                                        | [] -> Some base0
                                        | e :: r0 ->
                                          if (||) ((=) e 'e') ((=) e 'E')
                                          then (match r0 with
                                                | [] ->
                                                  let neg = false in
                                                  (match dec_digits r0 Z0 O with
                                                   | Some p3 ->
                                                     let (p4, l) = p3 in
                                                     let (ex, n3) = p4 in
                                                     (match n3 with
                                                      | O -> None
                                                      | S _ ->
                                                        (match l with
                                                         | [] ->
                                                           let p5 =
                                                             inject_Z
                                                               (Z.pow (Zpos
                                                                 (XO (XI (XO
                                                                 XH)))) ex)
                                                           in
                                                           Some
                                                           (if neg
                                                            then qdiv base0 p5
                                                            else qmult base0
                                                                   p5)
                                                         | _ :: _ -> None))
                                                   | None -> None)
                                                | a0 :: t ->
                                                  (* If this appears, you're using Ascii internals. Please don't *)
 (fun f c ->
  let n = Char.code c in
  let h i = (n land (1 lsl i)) <> 0 in
  f (h 0) (h 1) (h 2) (h 3) (h 4) (h 5) (h 6) (h 7))
                                                    (fun b7 b8 b9 b10 b11 b12 b13 b14 ->
                                                    if b7
                                                    then if b8
                                                         then if b9
                                                              then let neg =
                                                                    false
                                                                   in
                                                                   (match 
                                                                    dec_digits
                                                                    r0 Z0 O with
                                                                    | Some p3 ->
                                                                    let (
                                                                    p4, l) =
                                                                    p3
                                                                    in
                                                                    let (
                                                                    ex, n3) =
                                                                    p4
                                                                    in
                                                                    (
                                                                    match n3 with
                                                                    | O ->
                                                                    None
                                                                    | S _ ->
                                                                    (match l with
                                                                    | [] ->
                                                                    let p5 =
                                                                    inject_Z
                                                                    (Z.pow
                                                                    (Zpos (XO
                                                                    (XI (XO
                                                                    XH)))) ex)
                                                                    in
                                                                    Some
                                                                    (
                                                                    if neg
                                                                    then 
                                                                    qdiv
                                                                    base0 p5
                                                                    else 
                                                                    qmult
                                                                    base0 p5)
                                                                    | _ :: _ ->
                                                                    None))
                                                                    | None ->
                                                                    None)
                                                              else if b10
                                                                   then 
                                                                    if b11
                                                                    then 
                                                                    let neg =
                                                                    false
                                                                    in
                                                                    (
                                                                    match 
                                                                    dec_digits
                                                                    r0 Z0 O with
                                                                    | Some p3 ->
                                                                    let (
                                                                    p4, l) =
                                                                    p3
                                                                    in
                                                                    let (
                                                                    ex, n3) =
                                                                    p4
                                                                    in
                                                                    (
                                                                    match n3 with
                                                                    | O ->
                                                                    None
                                                                    | S _ ->
                                                                    (match l with
                                                                    | [] ->
                                                                    let p5 =
                                                                    inject_Z
                                                                    (Z.pow
                                                                    (Zpos (XO
                                                                    (XI (XO
                                                                    XH)))) ex)
                                                                    in
                                                                    Some
                                                                    (
                                                                    if neg
                                                                    then 
                                                                    qdiv
                                                                    base0 p5
                                                                    else 
                                                                    qmult
                                                                    base0 p5)
                                                                    | _ :: _ ->
                                                                    None))
                                                                    | None ->
                                                                    None)
                                                                    else 
                                                                    if b12
                                                                    then 
                                                                    if b13
                                                                    then 
                                                                    let neg =
                                                                    false
                                                                    in
                                                                    (
                                                                    match 
                                                                    dec_digits
                                                                    r0 Z0 O with
                                                                    | Some p3 ->
                                                                    let (
                                                                    p4, l) =
                                                                    p3
                                                                    in
                                                                    let (
                                                                    ex, n3) =
                                                                    p4
                                                                    in
                                                                    (
                                                                    match n3 with
                                                                    | O ->
                                                                    None
                                                                    | S _ ->
                                                                    (match l with
                                                                    | [] ->
                                                                    let p5 =
                                                                    inject_Z
                                                                    (Z.pow
                                                                    (Zpos (XO
                                                                    (XI (XO
                                                                    XH)))) ex)
                                                                    in
                                                                    Some
                                                                    (
                                                                    if neg
                                                                    then 
                                                                    qdiv
                                                                    base0 p5
                                                                    else 
                                                                    qmult
                                                                    base0 p5)
                                                                    | _ :: _ ->
                                                                    None))
                                                                    | None ->
                                                                    None)
                                                                    else 
                                                                    if b14
                                                                    then 
                                                                    let neg =
                                                                    false
                                                                    in
                                                                    (
                                                                    match 
                                                                    dec_digits
                                                                    r0 Z0 O with
                                                                    | Some p3 ->
                                                                    let (
                                                                    p4, l) =
                                                                    p3
                                                                    in
                                                                    let (
                                                                    ex, n3) =
                                                                    p4
                                                                    in
                                                                    (
                                                                    match n3 with
                                                                    | O ->
                                                                    None
                                                                    | S _ ->
                                                                    (match l with
                                                                    | [] ->
                                                                    let p5 =
                                                                    inject_Z
                                                                    (Z.pow
                                                                    (Zpos (XO
                                                                    (XI (XO
                                                                    XH)))) ex)
                                                                    in
                                                                    Some
                                                                    (
                                                                    if neg
                                                                    then 
                                                                    qdiv
                                                                    base0 p5
                                                                    else 
                                                                    qmult
                                                                    base0 p5)
                                                                    | _ :: _ ->
                                                                    None))
                                                                    | None ->
                                                                    None)
                                                                    else 
                                                                    let neg =
                                                                    false
                                                                    in
                                                                    (
                                                                    match 
                                                                    dec_digits
                                                                    t Z0 O with
                                                                    | Some p3 ->
                                                                    let (
                                                                    p4, l) =
                                                                    p3
                                                                    in
                                                                    let (
                                                                    ex, n3) =
                                                                    p4
                                                                    in
                                                                    (
                                                                    match n3 with
                                                                    | O ->
                                                                    None
                                                                    | S _ ->
                                                                    (match l with
                                                                    | [] ->
                                                                    let p5 =
                                                                    inject_Z
                                                                    (Z.pow
                                                                    (Zpos (XO
                                                                    (XI (XO
                                                                    XH)))) ex)
                                                                    in
                                                                    Some
                                                                    (
                                                                    if neg
                                                                    then 
                                                                    qdiv
                                                                    base0 p5
                                                                    else 
                                                                    qmult
                                                                    base0 p5)
                                                                    | _ :: _ ->
                                                                    None))
                                                                    | None ->
                                                                    None)
                                                                    else 
                                                                    let neg =
                                                                    false
                                                                    in
                                                                    (
                                                                    match 
                                                                    dec_digits
                                                                    r0 Z0 O with
                                                                    | Some p3 ->
                                                                    let (
                                                                    p4, l) =
                                                                    p3
                                                                    in
                                                                    let (
                                                                    ex, n3) =
                                                                    p4
                                                                    in
                                                                    (
                                                                    match n3 with
                                                                    | O ->
                                                                    None
                                                                    | S _ ->
                                                                    (match l with
                                                                    | [] ->
                                                                    let p5 =
                                                                    inject_Z
                                                                    (Z.pow
                                                                    (Zpos (XO
                                                                    (XI (XO
                                                                    XH)))) ex)
                                                                    in
                                                                    Some
                                                                    (
                                                                    if neg
                                                                    then 
                                                                    qdiv
                                                                    base0 p5
                                                                    else 
                                                                    qmult
                                                                    base0 p5)
                                                                    | _ :: _ ->
                                                                    None))
                                                                    | None ->
                                                                    None)
                                                                   else 
                                                                    let neg =
                                                                    false
                                                                    in
                                                                    (
                                                                    match 
                                                                    dec_digits
                                                                    r0 Z0 O with
                                                                    | Some p3 ->
                                                                    let (
                                                                    p4, l) =
                                                                    p3
                                                                    in
                                                                    let (
                                                                    ex, n3) =
                                                                    p4
                                                                    in
                                                                    (
                                                                    match n3 with
                                                                    | O ->
                                                                    None
                                                                    | S _ ->
                                                                    (match l with
                                                                    | [] ->
                                                                    let p5 =
                                                                    inject_Z
                                                                    (Z.pow
                                                                    (Zpos (XO
                                                                    (XI (XO
                                                                    XH)))) ex)
                                                                    in
                                                                    Some
                                                                    (
                                                                    if neg
                                                                    then 
                                                                    qdiv
                                                                    base0 p5
                                                                    else 
                                                                    qmult
                                                                    base0 p5)
                                                                    | _ :: _ ->
                                                                    None))
                                                                    | None ->
                                                                    None)
                                                         else if b9
                                                              then if b10
                                                                   then 
                                                                    if b11
                                                                    then 
                                                                    let neg =
                                                                    false
                                                                    in
                                                                    (
                                                                    match 
                                                                    dec_digits
                                                                    r0 Z0 O with
                                                                    | Some p3 ->
                                                                    let (
                                                                    p4, l) =
                                                                    p3
                                                                    in
                                                                    let (
                                                                    ex, n3) =
                                                                    p4
                                                                    in
                                                                    (
                                                                    match n3 with
                                                                    | O ->
                                                                    None
                                                                    | S _ ->
                                                                    (match l with
                                                                    | [] ->
                                                                    let p5 =
                                                                    inject_Z
                                                                    (Z.pow
                                                                    (Zpos (XO
                                                                    (XI (XO
                                                                    XH)))) ex)
                                                                    in
                                                                    Some
                                                                    (
                                                                    if neg
                                                                    then 
                                                                    qdiv
                                                                    base0 p5
                                                                    else 
                                                                    qmult
                                                                    base0 p5)
                                                                    | _ :: _ ->
                                                                    None))
                                                                    | None ->
                                                                    None)
                                                                    else 
                                                                    if b12
                                                                    then 
                                                                    if b13
                                                                    then 
                                                                    let neg =
                                                                    false
                                                                    in
                                                                    (
                                                                    match 
                                                                    dec_digits
                                                                    r0 Z0 O with
                                                                    | Some p3 ->
                                                                    let (
                                                                    p4, l) =
                                                                    p3
                                                                    in
                                                                    let (
                                                                    ex, n3) =
                                                                    p4
                                                                    in
                                                                    (
                                                                    match n3 with
                                                                    | O ->
                                                                    None
                                                                    | S _ ->
                                                                    (match l with
                                                                    | [] ->
                                                                    let p5 =
                                                                    inject_Z
                                                                    (Z.pow
                                                                    (Zpos (XO
                                                                    (XI (XO
                                                                    XH)))) ex)
                                                                    in
                                                                    Some
                                                                    (
                                                                    if neg
                                                                    then 
                                                                    qdiv
                                                                    base0 p5
                                                                    else 
                                                                    qmult
                                                                    base0 p5)
                                                                    | _ :: _ ->
                                                                    None))
                                                                    | None ->
                                                                    None)
                                                                    else 
                                                                    if b14
                                                                    then 
                                                                    let neg =
                                                                    false
                                                                    in
                                                                    (
                                                                    match 
                                                                    dec_digits
                                                                    r0 Z0 O with
                                                                    | Some p3 ->
                                                                    let (
                                                                    p4, l) =
                                                                    p3
                                                                    in
                                                                    let (
                                                                    ex, n3) =
                                                                    p4
                                                                    in
                                                                    (
                                                                    match n3 with
                                                                    | O ->
                                                                    None
                                                                    | S _ ->
                                                                    (match l with
                                                                    | [] ->
                                                                    let p5 =
                                                                    inject_Z
                                                                    (Z.pow
                                                                    (Zpos (XO
                                                                    (XI (XO
                                                                    XH)))) ex)
                                                                    in
                                                                    Some
                                                                    (
                                                                    if neg
                                                                    then 
                                                                    qdiv
                                                                    base0 p5
                                                                    else 
                                                                    qmult
                                                                    base0 p5)
                                                                    | _ :: _ ->
                                                                    None))
                                                                    | None ->
                                                                    None)
                                                                    else 
                                                                    let neg =
                                                                    true
                                                                    in
                                                                    (
                                                                    match 
                                                                    dec_digits
                                                                    t Z0 O with
                                                                    | Some p3 ->
                                                                    let (
                                                                    p4, l) =
                                                                    p3
                                                                    in
                                                                    let (
                                                                    ex, n3) =
                                                                    p4
                                                                    in
                                                                    (
                                                                    match n3 with
                                                                    | O ->
                                                                    None
                                                                    | S _ ->
                                                                    (match l with
                                                                    | [] ->
                                                                    let p5 =
                                                                    inject_Z
                                                                    (Z.pow
                                                                    (Zpos (XO
                                                                    (XI (XO
                                                                    XH)))) ex)
                                                                    in
                                                                    Some
                                                                    (
                                                                    if neg
                                                                    then 
                                                                    qdiv
                                                                    base0 p5
                                                                    else 
                                                                    qmult
                                                                    base0 p5)
                                                                    | _ :: _ ->
                                                                    None))
                                                                    | None ->
                                                                    None)
                                                                    else 
                                                                    let neg =
                                                                    false
                                                                    in
                                                                    (
                                                                    match 
                                                                    dec_digits
                                                                    r0 Z0 O with
                                                                    | Some p3 ->
                                                                    let (
                                                                    p4, l) =
                                                                    p3
                                                                    in
                                                                    let (
                                                                    ex, n3) =
                                                                    p4
                                                                    in
                                                                    (
                                                                    match n3 with
                                                                    | O ->
                                                                    None
                                                                    | S _ ->
                                                                    (match l with
                                                                    | [] ->
                                                                    let p5 =
                                                                    inject_Z
                                                                    (Z.pow
                                                                    (Zpos (XO
                                                                    (XI (XO
                                                                    XH)))) ex)
                                                                    in
                                                                    Some
                                                                    (
                                                                    if neg
                                                                    then 
                                                                    qdiv
                                                                    base0 p5
                                                                    else 
                                                                    qmult
                                                                    base0 p5)
                                                                    | _ :: _ ->
                                                                    None))
                                                                    | None ->
                                                                    None)
                                                                   else 
                                                                    let neg =
                                                                    false
                                                                    in
                                                                    (
                                                                    match 
                                                                    dec_digits
                                                                    r0 Z0 O with
                                                                    | Some p3 ->
                                                                    let (
                                                                    p4, l) =
                                                                    p3
                                                                    in
                                                                    let (
                                                                    ex, n3) =
                                                                    p4
                                                                    in
                                                                    (
                                                                    match n3 with
                                                                    | O ->
                                                                    None
                                                                    | S _ ->
                                                                    (match l with
                                                                    | [] ->
                                                                    let p5 =
                                                                    inject_Z
                                                                    (Z.pow
                                                                    (Zpos (XO
                                                                    (XI (XO
                                                                    XH)))) ex)
                                                                    in
                                                                    Some
                                                                    (
                                                                    if neg
                                                                    then 
                                                                    qdiv
                                                                    base0 p5
                                                                    else 
                                                                    qmult
                                                                    base0 p5)
                                                                    | _ :: _ ->
                                                                    None))
                                                                    | None ->
                                                                    None)
                                                              else let neg =
                                                                    false
                                                                   in
                                                                   (match 
                                                                    dec_digits
                                                                    r0 Z0 O with
                                                                    | Some p3 ->
                                                                    let (
                                                                    p4, l) =
                                                                    p3
                                                                    in
                                                                    let (
                                                                    ex, n3) =
                                                                    p4
                                                                    in
                                                                    (
                                                                    match n3 with
                                                                    | O ->
                                                                    None
                                                                    | S _ ->
                                                                    (match l with
                                                                    | [] ->
                                                                    let p5 =
                                                                    inject_Z
                                                                    (Z.pow
                                                                    (Zpos (XO
                                                                    (XI (XO
                                                                    XH)))) ex)
                                                                    in
                                                                    Some
                                                                    (
                                                                    if neg
                                                                    then 
                                                                    qdiv
                                                                    base0 p5
                                                                    else 
                                                                    qmult
                                                                    base0 p5)
                                                                    | _ :: _ ->
                                                                    None))
                                                                    | None ->
                                                                    None)
                                                    else let neg = false in
                                                         (match dec_digits r0
                                                                  Z0 O with
                                                          | Some p3 ->
                                                            let (p4, l) = p3
                                                            in
                                                            let (ex, n3) = p4
                                                            in
                                                            (match n3 with
                                                             | O -> None
                                                             | S _ ->
                                                               (match l with
                                                                | [] ->
                                                                  let p5 =
                                                                    inject_Z
                                                                    (Z.pow
                                                                    (Zpos (XO
                                                                    (XI (XO
                                                                    XH)))) ex)
                                                                  in
                                                                  Some
                                                                  (if neg
                                                                   then 
                                                                    qdiv
                                                                    base0 p5
                                                                   else 
                                                                    qmult
                                                                    base0 p5)
                                                                | _ :: _ ->
                                                                  None))
                                                          | None -> None))
                                                    a0)
                                          else None)
                             else if b4
                                  then if b5
                                       then let p1 = ((ip, O), rest0) in
                                            let n2 = O in
                                            let (p2, rest2) = p1 in
                                            let (mant, scale) = p2 in
                                            if Nat.eqb (add n1 n2) O
                                            then None
                                            else let base = { qnum = mant;
                                                   qden =
                                                   (Coq_Pos.pow (XO (XI (XO
                                                     XH)))
                                                     (Coq_Pos.of_nat scale)) }
                                                 in
                                                 let base0 =
                                                   if Nat.eqb scale O
                                                   then inject_Z mant
                                                   else base
                                                 in
                                                 (match rest2 with
                                                  | [] -> Some base0
                                                  | e :: r0 ->
                                                    if (||) ((=) e 'e')
                                                         ((=) e 'E')
                                                    then (match r0 with
                                                          | [] ->
                                                            let neg = false in
                                                            (match dec_digits
                                                                    r0 Z0 O with
                                                             | Some p3 ->
                                                               let (p4, l) =
                                                                 p3
                                                               in
                                                               let (ex, n3) =
                                                                 p4
                                                               in
                                                               (match n3 with
                                                                | O -> None
                                                                | S _ ->
                                                                  (match l with
                                                                   | [] ->
                                                                    let p5 =
                                                                    inject_Z
                                                                    (Z.pow
                                                                    (Zpos (XO
                                                                    (XI (XO
                                                                    XH)))) ex)
                                                                    in
                                                                    Some
                                                                    (
                                                                    if neg
                                                                    then 
                                                                    qdiv
                                                                    base0 p5
                                                                    else 
                                                                    qmult
                                                                    base0 p5)
                                                                   | _ :: _ ->
                                                                    None))
                                                             | None -> None)
                                                          | a0 :: t ->
                                                            (* If this appears, you're using Ascii internals. Please don't *)
 (fun f c ->
  let n = Char.code c in
  let h i = (n land (1 lsl i)) <> 0 in
  f (h 0) (h 1) (h 2) (h 3) (h 4) (h 5) (h 6) (h 7))
                                                              (fun b7 b8 b9 b10 b11 b12 b13 b14 ->
                                                              if b7
                                                              then if b8
                                                                   then 
                                                                    if b9
                                                                    then 
                                                                    let neg =
                                                                    false
                                                                    in
                                                                    (
                                                                    match 
                                                                    dec_digits
                                                                    r0 Z0 O with
                                                                    | Some p3 ->
                                                                    let (
                                                                    p4, l) =
                                                                    p3
                                                                    in
                                                                    let (
                                                                    ex, n3) =
                                                                    p4
                                                                    in
                                                                    (
                                                                    match n3 with
                                                                    | O ->
                                                                    None
                                                                    | S _ ->
                                                                    (match l with
                                                                    | [] ->
                                                                    let p5 =
                                                                    inject_Z
                                                                    (Z.pow
                                                                    (Zpos (XO
                                                                    (XI (XO
                                                                    XH)))) ex)
                                                                    in
                                                                    Some
                                                                    (
                                                                    if neg
                                                                    then 
                                                                    qdiv
                                                                    base0 p5
                                                                    else 
                                                                    qmult
                                                                    base0 p5)
                                                                    | _ :: _ ->
                                                                    None))
                                                                    | None ->
                                                                    None)
                                                                    else 
                                                                    if b10
                                                                    then 
                                                                    if b11
                                                                    then 
                                                                    let neg =
                                                                    false
                                                                    in
                                                                    (
                                                                    match 
                                                                    dec_digits
                                                                    r0 Z0 O with
                                                                    | Some p3 ->
                                                                    let (
                                                                    p4, l) =
                                                                    p3
                                                                    in
                                                                    let (
                                                                    ex, n3) =
                                                                    p4
                                                                    in
                                                                    (
                                                                    match n3 with
                                                                    | O ->
                                                                    None
                                                                    | S _ ->
                                                                    (match l with
                                                                    | [] ->
                                                                    let p5 =
                                                                    inject_Z
                                                                    (Z.pow
                                                                    (Zpos (XO
                                                                    (XI (XO
                                                                    XH)))) ex)
                                                                    in
                                                                    Some
                                                                    (
                                                                    if neg
                                                                    then 
                                                                    qdiv
                                                                    base0 p5
                                                                    else 
                                                                    qmult
                                                                    base0 p5)
                                                                    | _ :: _ ->
                                                                    None))
                                                                    | None ->
                                                                    None)
                                                                    else 
                                                                    if b12
                                                                    then 
                                                                    if b13
                                                                    then 
                                                                    let neg =
                                                                    false
                                                                    in
                                                                    (
                                                                    match 
                                                                    dec_digits
                                                                    r0 Z0 O with
                                                                    | Some p3 ->
                                                                    let (
                                                                    p4, l) =
                                                                    p3
                                                                    in
                                                                    let (
                                                                    ex, n3) =
                                                                    p4
                                                                    in
                                                                    (
                                                                    match n3 with
                                                                    | O ->
                                                                    None
                                                                    | S _ ->
                                                                    (match l with
                                                                    | [] ->
                                                                    let p5 =
                                                                    inject_Z
                                                                    (Z.pow
                                                                    (Zpos (XO
                                                                    (XI (XO
                                                                    XH)))) ex)
                                                                    in
                                                                    Some
                                                                    (
                                                                    if neg
                                                                    then 
                                                                    qdiv
                                                                    base0 p5
                                                                    else 
                                                                    qmult
                                                                    base0 p5)
                                                                    | _ :: _ ->
                                                                    None))
                                                                    | None ->
                                                                    None)
                                                                    else 
                                                                    if b14
                                                                    then 
                                                                    let neg =
                                                                    false
                                                                    in
                                                                    (
                                                                    match 
                                                                    dec_digits
                                                                    r0 Z0 O with
                                                                    | Some p3 ->
                                                                    let (
                                                                    p4, l) =
                                                                    p3
                                                                    in
                                                                    let (
                                                                    ex, n3) =
                                                                    p4
                                                                    in
                                                                    (
                                                                    match n3 with
                                                                    | O ->
                                                                    None
                                                                    | S _ ->
                                                                    (match l with
                                                                    | [] ->
                                                                    let p5 =
                                                                    inject_Z
                                                                    (Z.pow
                                                                    (Zpos (XO
                                                                    (XI (XO
                                                                    XH)))) ex)
                                                                    in
                                                                    Some
                                                                    (
                                                                    if neg
                                                                    then 
                                                                    qdiv
                                                                    base0 p5
                                                                    else 
                                                                    qmult
                                                                    base0 p5)
                                                                    | _ :: _ ->
                                                                    None))
                                                                    | None ->
                                                                    None)
                                                                    else 
                                                                    let neg =
                                                                    false
                                                                    in
                                                                    (
                                                                    match 
                                                                    dec_digits
                                                                    t Z0 O with
                                                                    | Some p3 ->
                                                                    let (
                                                                    p4, l) =
                                                                    p3
                                                                    in
                                                                    let (
                                                                    ex, n3) =
                                                                    p4
                                                                    in
                                                                    (
                                                                    match n3 with
                                                                    | O ->
                                                                    None
                                                                    | S _ ->
                                                                    (match l with
                                                                    | [] ->
                                                                    let p5 =
                                                                    inject_Z
                                                                    (Z.pow
                                                                    (Zpos (XO
                                                                    (XI (XO
                                                                    XH)))) ex)
                                                                    in
                                                                    Some
                                                                    (
                                                                    if neg
                                                                    then 
                                                                    qdiv
                                                                    base0 p5
                                                                    else 
                                                                    qmult
                                                                    base0 p5)
                                                                    | _ :: _ ->
                                                                    None))
                                                                    | None ->
                                                                    None)
                                                                    else 
                                                                    let neg =
                                                                    false
                                                                    in
                                                                    (
                                                                    match 
                                                                    dec_digits
                                                                    r0 Z0 O with
                                                                    | Some p3 ->
                                                                    let (
                                                                    p4, l) =
                                                                    p3
                                                                    in
                                                                    let (
                                                                    ex, n3) =
                                                                    p4
                                                                    in
                                                                    (
                                                                    match n3 with
                                                                    | O ->
                                                                    None
                                                                    | S _ ->
                                                                    (match l with
                                                                    | [] ->
                                                                    let p5 =
                                                                    inject_Z
                                                                    (Z.pow
                                                                    (Zpos (XO
                                                                    (XI (XO
                                                                    XH)))) ex)
                                                                    in
                                                                    Some
                                                                    (
                                                                    if neg
                                                                    then 
                                                                    qdiv
                                                                    base0 p5
                                                                    else 
                                                                    qmult
                                                                    base0 p5)
                                                                    | _ :: _ ->
                                                                    None))
                                                                    | None ->
                                                                    None)
                                                                    else 
                                                                    let neg =
                                                                    false
                                                                    in
                                                                    (
                                                                    match 
                                                                    dec_digits
                                                                    r0 Z0 O with
                                                                    | Some p3 ->
                                                                    let (
                                                                    p4, l) =
                                                                    p3
                                                                    in
                                                                    let (
                                                                    ex, n3) =
                                                                    p4
                                                                    in
                                                                    (
                                                                    match n3 with
                                                                    | O ->
                                                                    None
                                                                    | S _ ->
                                                                    (match l with
                                                                    | [] ->
                                                                    let p5 =
                                                                    inject_Z
                                                                    (Z.pow
                                                                    (Zpos (XO
                                                                    (XI (XO
                                                                    XH)))) ex)
                                                                    in
                                                                    Some
                                                                    (
                                                                    if neg
                                                                    then 
                                                                    qdiv
                                                                    base0 p5
                                                                    else 
                                                                    qmult
                                                                    base0 p5)
                                                                    | _ :: _ ->
                                                                    None))
                                                                    | None ->
                                                                    None)
                                                                   else 
                                                                    if b9
                                                                    then 
                                                                    if b10
                                                                    then 
                                                                    if b11
                                                                    then 
                                                                    let neg =
                                                                    false
                                                                    in
                                                                    (
                                                                    match 
                                                                    dec_digits
                                                                    r0 Z0 O with
                                                                    | Some p3 ->
                                                                    let (
                                                                    p4, l) =
                                                                    p3
                                                                    in
                                                                    let (
                                                                    ex, n3) =
                                                                    p4
                                                                    in
                                                                    (
                                                                    match n3 with
                                                                    | O ->
                                                                    None
                                                                    | S _ ->
                                                                    (match l with
                                                                    | [] ->
                                                                    let p5 =
                                                                    inject_Z
                                                                    (Z.pow
                                                                    (Zpos (XO
                                                                    (XI (XO
                                                                    XH)))) ex)
                                                                    in
                                                                    Some
                                                                    (
                                                                    if neg
                                                                    then 
                                                                    qdiv
                                                                    base0 p5
                                                                    else 
                                                                    qmult
                                                                    base0 p5)
                                                                    | _ :: _ ->
                                                                    None))
                                                                    | None ->
                                                                    None)
                                                                    else 
                                                                    if b12
                                                                    then 
                                                                    if b13
                                                                    then 
                                                                    let neg =
                                                                    false
                                                                    in
                                                                    (
                                                                    match 
                                                                    dec_digits
                                                                    r0 Z0 O with
                                                                    | Some p3 ->
                                                                    let (
                                                                    p4, l) =
                                                                    p3
                                                                    in
                                                                    let (
                                                                    ex, n3) =
                                                                    p4
                                                                    in
                                                                    (
                                                                    match n3 with
                                                                    | O ->
                                                                    None
                                                                    | S _ ->
                                                                    (match l with
                                                                    | [] ->
                                                                    let p5 =
                                                                    inject_Z
                                                                    (Z.pow
                                                                    (Zpos (XO
                                                                    (XI (XO
                                                                    XH)))) ex)
                                                                    in
                                                                    Some
                                                                    (
                                                                    if neg
                                                                    then 
                                                                    qdiv
                                                                    base0 p5
                                                                    else 
                                                                    qmult
                                                                    base0 p5)
                                                                    | _ :: _ ->
                                                                    None))
                                                                    | None ->
                                                                    None)
                                                                    else 
                                                                    if b14
                                                                    then 
                                                                    let neg =
                                                                    false
                                                                    in
                                                                    (
                                                                    match 
                                                                    dec_digits
                                                                    r0 Z0 O with
                                                                    | Some p3 ->
                                                                    let (
                                                                    p4, l) =
                                                                    p3
                                                                    in
                                                                    let (
                                                                    ex, n3) =
                                                                    p4
                                                                    in
                                                                    (
                                                                    match n3 with
                                                                    | O ->
                                                                    None
                                                                    | S _ ->
                                                                    (match l with
                                                                    | [] ->
                                                                    let p5 =
                                                                    inject_Z
                                                                    (Z.pow
                                                                    (Zpos (XO
                                                                    (XI (XO
                                                                    XH)))) ex)
                                                                    in
                                                                    Some
                                                                    (
                                                                    if neg
                                                                    then 
                                                                    qdiv
                                                                    base0 p5
                                                                    else 
                                                                    qmult
                                                                    base0 p5)
                                                                    | _ :: _ ->
                                                                    None))
                                                                    | None ->
                                                                    None)
                                                                    else 
                                                                    let neg =
                                                                    true
                                                                    in
                                                                    (
                                                                    match 
                                                                    dec_digits
                                                                    t Z0 O with
                                                                    | Some p3 ->
                                                                    let (
                                                                    p4, l) =
                                                                    p3
                                                                    in
                                                                    let (
                                                                    ex, n3) =
                                                                    p4
                                                                    in
                                                                    (
                                                                    match n3 with
                                                                    | O ->
                                                                    None
                                                                    | S _ ->
                                                                    (match l with
                                                                    | [] ->
                                                                    let p5 =
                                                                    inject_Z
                                                                    (Z.pow
                                                                    (Zpos (XO
                                                                    (XI (XO
                                                                    XH)))) ex)
                                                                    in
                                                                    Some
                                                                    (
                                                                    if neg
                                                                    then 
                                                                    qdiv
                                                                    base0 p5
                                                                    else 
                                                                    qmult
                                                                    base0 p5)
                                                                    | _ :: _ ->
                                                                    None))
                                                                    | None ->
                                                                    None)
                                                                    else 
                                                                    let neg =
                                                                    false
                                                                    in
                                                                    (
                                                                    match 
                                                                    dec_digits
                                                                    r0 Z0 O with
                                                                    | Some p3 ->
                                                                    let (
                                                                    p4, l) =
                                                                    p3
                                                                    in
                                                                    let (
                                                                    ex, n3) =
                                                                    p4
                                                                    in
                                                                    (
                                                                    match n3 with
                                                                    | O ->
                                                                    None
                                                                    | S _ ->
                                                                    (match l with
                                                                    | [] ->
                                                                    let p5 =
                                                                    inject_Z
                                                                    (Z.pow
                                                                    (Zpos (XO
                                                                    (XI (XO
                                                                    XH)))) ex)
                                                                    in
                                                                    Some
                                                                    (
                                                                    if neg
                                                                    then 
                                                                    qdiv
                                                                    base0 p5
                                                                    else 
                                                                    qmult
                                                                    base0 p5)
                                                                    | _ :: _ ->
                                                                    None))
                                                                    | None ->
                                                                    None)
                                                                    else 
                                                                    let neg =
                                                                    false
                                                                    in
                                                                    (
                                                                    match 
                                                                    dec_digits
                                                                    r0 Z0 O with
                                                                    | Some p3 ->
                                                                    let (
                                                                    p4, l) =
                                                                    p3
                                                                    in
                                                                    let (
                                                                    ex, n3) =
                                                                    p4
                                                                    in
                                                                    (
                                                                    match n3 with
                                                                    | O ->
                                                                    None
                                                                    | S _ ->
                                                                    (match l with
                                                                    | [] ->
                                                                    let p5 =
                                                                    inject_Z
                                                                    (Z.pow
                                                                    (Zpos (XO
                                                                    (XI (XO
                                                                    XH)))) ex)
                                                                    in
                                                                    Some
                                                                    (
                                                                    if neg
                                                                    then 
                                                                    qdiv
                                                                    base0 p5
                                                                    else 
                                                                    qmult
                                                                    base0 p5)
                                                                    | _ :: _ ->
                                                                    None))
                                                                    | None ->
                                                                    None)
                                                                    else 
                                                                    let neg =
                                                                    false
                                                                    in
                                                                    (
                                                                    match 
                                                                    dec_digits
                                                                    r0 Z0 O with
                                                                    | Some p3 ->
                                                                    let (
                                                                    p4, l) =
                                                                    p3
                                                                    in
                                                                    let (
                                                                    ex, n3) =
                                                                    p4
                                                                    in
                                                                    (
                                                                    match n3 with
                                                                    | O ->
                                                                    None
                                                                    | S _ ->
                                                                    (match l with
                                                                    | [] ->
                                                                    let p5 =
                                                                    inject_Z
                                                                    (Z.pow
                                                                    (Zpos (XO
                                                                    (XI (XO
                                                                    XH)))) ex)
                                                                    in
                                                                    Some
                                                                    (
                                                                    if neg
                                                                    then 
                                                                    qdiv
                                                                    base0 p5
                                                                    else 
                                                                    qmult
                                                                    base0 p5)
                                                                    | _ :: _ ->
                                                                    None))
                                                                    | None ->
                                                                    None)
                                                              else let neg =
                                                                    false
                                                                   in
                                                                   (match 
                                                                    dec_digits
                                                                    r0 Z0 O with
                                                                    | Some p3 ->
                                                                    let (
                                                                    p4, l) =
                                                                    p3
                                                                    in
                                                                    let (
                                                                    ex, n3) =
                                                                    p4
                                                                    in
                                                                    (
                                                                    match n3 with
                                                                    | O ->
                                                                    None
                                                                    | S _ ->
                                                                    (match l with
                                                                    | [] ->
                                                                    let p5 =
                                                                    inject_Z
                                                                    (Z.pow
                                                                    (Zpos (XO
                                                                    (XI (XO
                                                                    XH)))) ex)
                                                                    in
                                                                    Some
                                                                    (
                                                                    if neg
                                                                    then 
                                                                    qdiv
                                                                    base0 p5
                                                                    else 
                                                                    qmult
                                                                    base0 p5)
                                                                    | _ :: _ ->
                                                                    None))
                                                                    | None ->
                                                                    None))
                                                              a0)
                                                    else None)
                                       else if b6
                                            then let p1 = ((ip, O), rest0) in
                                                 let n2 = O in
                                                 let (p2, rest2) = p1 in
                                                 let (mant, scale) = p2 in
                                                 if Nat.eqb (add n1 n2) O
                                                 then None
                                                 else let base = { qnum =
                                                        mant; qden =
                                                        (Coq_Pos.pow (XO (XI
                                                          (XO XH)))
                                                          (Coq_Pos.of_nat
                                                            scale)) }
                                                      in
                                                      let base0 =
                                                        if Nat.eqb scale O
                                                        then inject_Z mant
                                                        else base
                                                      in
                                                      (match rest2 with
                                                       | [] -> Some base0
                                                       | e :: r0 ->
                                                         if (||) ((=) e 'e')
                                                              ((=) e 'E')
                                                         then (match r0 with
                                                               | [] ->
                                                                 let neg =
                                                                   false
                                                                 in
                                                                 (match 
                                                                  dec_digits
                                                                    r0 Z0 O with
                                                                  | Some p3 ->
                                                                    let (
                                                                    p4, l) =
                                                                    p3
                                                                    in
                                                                    let (
                                                                    ex, n3) =
                                                                    p4
                                                                    in
                                                                    (
                                                                    match n3 with
                                                                    | O ->
                                                                    None
                                                                    | S _ ->
                                                                    (match l with
                                                                    | [] ->
                                                                    let p5 =
                                                                    inject_Z
                                                                    (Z.pow
                                                                    (Zpos (XO
                                                                    (XI (XO
                                                                    XH)))) ex)
                                                                    in
                                                                    Some
                                                                    (
                                                                    if neg
                                                                    then 
                                                                    qdiv
                                                                    base0 p5
                                                                    else 
                                                                    qmult
                                                                    base0 p5)
                                                                    | _ :: _ ->
                                                                    None))
                                                                  | None ->
                                                                    None)
                                                               | a0 :: t ->
                                                                 (* If this appears, you're using Ascii internals. Please don't *)
 (fun f c ->
  let n = Char.code c in
  let h i = (n land (1 lsl i)) <> 0 in
  f (h 0) (h 1) (h 2) (h 3) (h 4) (h 5) (h 6) (h 7))
                                                                   (fun b7 b8 b9 b10 b11 b12 b13 b14 ->
                                                                   if b7
                                                                   then 
                                                                    if b8
                                                                    then 
                                                                    if b9
                                                                    then 
                                                                    let neg =
                                                                    false
                                                                    in
                                                                    (
                                                                    match 
                                                                    dec_digits
                                                                    r0 Z0 O with
                                                                    | Some p3 ->
                                                                    let (
                                                                    p4, l) =
                                                                    p3
                                                                    in
                                                                    let (
                                                                    ex, n3) =
                                                                    p4
                                                                    in
                                                                    (
                                                                    match n3 with
                                                                    | O ->
                                                                    None
                                                                    | S _ ->
                                                                    (match l with
                                                                    | [] ->
                                                                    let p5 =
                                                                    inject_Z
                                                                    (Z.pow
                                                                    (Zpos (XO
                                                                    (XI (XO
                                                                    XH)))) ex)
                                                                    in
                                                                    Some
                                                                    (
                                                                    if neg
                                                                    then 
                                                                    qdiv
                                                                    base0 p5
                                                                    else 
                                                                    qmult
                                                                    base0 p5)
                                                                    | _ :: _ ->
                                                                    None))
                                                                    | None ->
                                                                    None)
                                                                    else 
                                                                    if b10
                                                                    then 
                                                                    if b11
                                                                    then 
                                                                    let neg =
                                                                    false
                                                                    in
                                                                    (
                                                                    match 
                                                                    dec_digits
                                                                    r0 Z0 O with
                                                                    | Some p3 ->
                                                                    let (
                                                                    p4, l) =
                                                                    p3
                                                                    in
                                                                    let (
                                                                    ex, n3) =
                                                                    p4
                                                                    in
                                                                    (
                                                                    match n3 with
                                                                    | O ->
                                                                    None
                                                                    | S _ ->
                                                                    (match l with
                                                                    | [] ->
                                                                    let p5 =
                                                                    inject_Z
                                                                    (Z.pow
                                                                    (Zpos (XO
                                                                    (XI (XO
                                                                    XH)))) ex)
                                                                    in
                                                                    Some
                                                                    (
                                                                    if neg
                                                                    then 
                                                                    qdiv
                                                                    base0 p5
                                                                    else 
                                                                    qmult
                                                                    base0 p5)
                                                                    | _ :: _ ->
                                                                    None))
                                                                    | None ->
                                                                    None)
                                                                    else 
                                                                    if b12
                                                                    then 
                                                                    if b13
                                                                    then 
                                                                    let neg =
                                                                    false
                                                                    in
                                                                    (
                                                                    match 
                                                                    dec_digits
                                                                    r0 Z0 O with
                                                                    | Some p3 ->
                                                                    let (
                                                                    p4, l) =
                                                                    p3
                                                                    in
                                                                    let (
                                                                    ex, n3) =
                                                                    p4
                                                                    in
                                                                    (
                                                                    match n3 with
                                                                    | O ->
                                                                    None
                                                                    | S _ ->
                                                                    (match l with
                                                                    | [] ->
                                                                    let p5 =
                                                                    inject_Z
                                                                    (Z.pow
                                                                    (Zpos (XO
                                                                    (XI (XO
                                                                    XH)))) ex)
                                                                    in
                                                                    Some
                                                                    (
                                                                    if neg
                                                                    then 
                                                                    qdiv
                                                                    base0 p5
                                                                    else 
                                                                    qmult
                                                                    base0 p5)
                                                                    | _ :: _ ->
                                                                    None))
                                                                    | None ->
                                                                    None)
                                                                    else 
                                                                    if b14
                                                                    then 
                                                                    let neg =
                                                                    false
                                                                    in
                                                                    (
                                                                    match 
                                                                    dec_digits
                                                                    r0 Z0 O with
                                                                    | Some p3 ->
                                                                    let (
                                                                    p4, l) =
                                                                    p3
                                                                    in
                                                                    let (
                                                                    ex, n3) =
                                                                    p4
                                                                    in
                                                                    (
                                                                    match n3 with
                                                                    | O ->
                                                                    None
                                                                    | S _ ->
                                                                    (match l with
                                                                    | [] ->
                                                                    let p5 =
                                                                    inject_Z
                                                                    (Z.pow
                                                                    (Zpos (XO
                                                                    (XI (XO
                                                                    XH)))) ex)
                                                                    in
                                                                    Some
                                                                    (
                                                                    if neg
                                                                    then 
                                                                    qdiv
                                                                    base0 p5
                                                                    else 
                                                                    qmult
                                                                    base0 p5)
                                                                    | _ :: _ ->
                                                                    None))
                                                                    | None ->
                                                                    None)
                                                                    else 
                                                                    let neg =
                                                                    false
                                                                    in
                                                                    (
                                                                    match 
                                                                    dec_digits
                                                                    t Z0 O with
                                                                    | Some p3 ->
                                                                    let (
                                                                    p4, l) =
                                                                    p3
                                                                    in
                                                                    let (
                                                                    ex, n3) =
                                                                    p4
                                                                    in
                                                                    (
                                                                    match n3 with
                                                                    | O ->
                                                                    None
                                                                    | S _ ->
                                                                    (match l with
                                                                    | [] ->
                                                                    let p5 =
                                                                    inject_Z
                                                                    (Z.pow
                                                                    (Zpos (XO
                                                                    (XI (XO
                                                                    XH)))) ex)
                                                                    in
                                                                    Some
                                                                    (
                                                                    if neg
                                                                    then 
                                                                    qdiv
                                                                    base0 p5
                                                                    else 
                                                                    qmult
                                                                    base0 p5)
                                                                    | _ :: _ ->
                                                                    None))
                                                                    | None ->
                                                                    None)
                                                                    else 
                                                                    let neg =
                                                                    false
                                                                    in
                                                                    (
                                                                    match 
                                                                    dec_digits
                                                                    r0 Z0 O with
                                                                    | Some p3 ->
                                                                    let (
                                                                    p4, l) =
                                                                    p3
                                                                    in
                                                                    let (
                                                                    ex, n3) =
                                                                    p4
                                                                    in
                                                                    (
                                                                    match n3 with
                                                                    | O ->
                                                                    None
                                                                    | S _ ->
                                                                    (match l with
                                                                    | [] ->
                                                                    let p5 =
                                                                    inject_Z
                                                                    (Z.pow
                                                                    (Zpos (XO
                                                                    (XI (XO
                                                                    XH)))) ex)
                                                                    in
                                                                    Some
                                                                    (
                                                                    if neg
                                                                    then 
                                                                    qdiv
                                                                    base0 p5
                                                                    else 
                                                                    qmult
                                                                    base0 p5)
                                                                    | _ :: _ ->
                                                                    None))
                                                                    | None ->
                                                                    None)
                                                                    else 
                                                                    let neg =
                                                                    false
                                                                    in
                                                                    (
                                                                    match 
                                                                    dec_digits
                                                                    r0 Z0 O with
                                                                    | Some p3 ->
                                                                    let (
                                                                    p4, l) =
                                                                    p3
                                                                    in
                                                                    let (
                                                                    ex, n3) =
                                                                    p4
                                                                    in
                                                                    (
                                                                    match n3 with
                                                                    | O ->
                                                                    None
                                                                    | S _ ->
                                                                    (match l with
                                                                    | [] ->
                                                                    let p5 =
                                                                    inject_Z
                                                                    (Z.pow
                                                                    (Zpos (XO
                                                                    (XI (XO
                                                                    XH)))) ex)
                                                                    in
                                                                    Some
                                                                    (
                                                                    if neg
                                                                    then 
                                                                    qdiv
                                                                    base0 p5
                                                                    else 
                                                                    qmult
                                                                    base0 p5)
                                                                    | _ :: _ ->
                                                                    None))
                                                                    | None ->
                                                                    None)
                                                                    else 
                                                                    if b9
                                                                    then 
                                                                    if b10
                                                                    then 
                                                                    if b11
                                                                    then 
                                                                    let neg =
                                                                    false
                                                                    in
                                                                    (
                                                                    match 
                                                                    dec_digits
                                                                    r0 Z0 O with
                                                                    | Some p3 ->
                                                                    let (
                                                                    p4, l) =
                                                                    p3
                                                                    in
                                                                    let (
                                                                    ex, n3) =
                                                                    p4
                                                                    in
                                                                    (
                                                                    match n3 with
                                                                    | O ->
                                                                    None
                                                                    | S _ ->
                                                                    (match l with
                                                                    | [] ->
                                                                    let p5 =
                                                                    inject_Z
                                                                    (Z.pow
                                                                    (Zpos (XO
                                                                    (XI (XO
                                                                    XH)))) ex)
                                                                    in
                                                                    Some
                                                                    (
                                                                    if neg
                                                                    then 
                                                                    qdiv
                                                                    base0 p5
                                                                    else 
                                                                    qmult
                                                                    base0 p5)
                                                                    | _ :: _ ->
                                                                    None))
                                                                    | None ->
                                                                    None)
                                                                    else 
                                                                    if b12
                                                                    then 
                                                                    if b13
                                                                    then 
                                                                    let neg =
                                                                    false
                                                                    in
                                                                    (
                                                                    match 
                                                                    dec_digits
                                                                    r0 Z0 O with
                                                                    | Some p3 ->
                                                                    let (
                                                                    p4, l) =
                                                                    p3
                                                                    in
                                                                    let (
                                                                    ex, n3) =
                                                                    p4
                                                                    in
                                                                    (
                                                                    match n3 with
                                                                    | O ->
                                                                    None
                                                                    | S _ ->
                                                                    (match l with
                                                                    | [] ->
                                                                    let p5 =
                                                                    inject_Z
                                                                    (Z.pow
                                                                    (Zpos (XO
                                                                    (XI (XO
                                                                    XH)))) ex)
                                                                    in
                                                                    Some
                                                                    (
                                                                    if neg
                                                                    then 
                                                                    qdiv
                                                                    base0 p5
                                                                    else 
                                                                    qmult
                                                                    base0 p5)
                                                                    | _ :: _ ->
                                                                    None))
                                                                    | None ->
                                                                    None)
                                                                    else 
                                                                    if b14
                                                                    then 
                                                                    let neg =
                                                                    false
                                                                    in
                                                                    (
                                                                    match 
                                                                    dec_digits
                                                                    r0 Z0 O with
                                                                    | Some p3 ->
                                                                    let (
                                                                    p4, l) =
                                                                    p3
                                                                    in
                                                                    let (
                                                                    ex, n3) =
                                                                    p4
                                                                    in
                                                                    (
                                                                    match n3 with
                                                                    | O ->
                                                                    None
                                                                    | S _ ->
                                                                    (match l with
                                                                    | [] ->
                                                                    let p5 =
                                                                    inject_Z
                                                                    (Z.pow
                                                                    (Zpos (XO
                                                                    (XI (XO
                                                                    XH)))) ex)
                                                                    in
                                                                    Some
                                                                    (
                                                                    if neg
                                                                    then 
                                                                    qdiv
                                                                    base0 p5
                                                                    else 
                                                                    qmult
                                                                    base0 p5)
                                                                    | _ :: _ ->
                                                                    None))
                                                                    | None ->
                                                                    None)
                                                                    else 
                                                                    let neg =
                                                                    true
                                                                    in
                                                                    (
                                                                    match 
                                                                    dec_digits
                                                                    t Z0 O with
                                                                    | Some p3 ->
                                                                    let (
                                                                    p4, l) =
                                                                    p3
                                                                    in
                                                                    let (
                                                                    ex, n3) =
                                                                    p4
                                                                    in
                                                                    (
                                                                    match n3 with
                                                                    | O ->
                                                                    None
                                                                    | S _ ->
                                                                    (match l with
                                                                    | [] ->
                                                                    let p5 =
                                                                    inject_Z
                                                                    (Z.pow
                                                                    (Zpos (XO
                                                                    (XI (XO
                                                                    XH)))) ex)
                                                                    in
                                                                    Some
                                                                    (
                                                                    if neg
                                                                    then 
                                                                    qdiv
                                                                    base0 p5
                                                                    else 
                                                                    qmult
                                                                    base0 p5)
                                                                    | _ :: _ ->
                                                                    None))
                                                                    | None ->
                                                                    None)
                                                                    else 
                                                                    let neg =
                                                                    false
                                                                    in
                                                                    (
                                                                    match 
                                                                    dec_digits
                                                                    r0 Z0 O with
                                                                    | Some p3 ->
                                                                    let (
                                                                    p4, l) =
                                                                    p3
                                                                    in
                                                                    let (
                                                                    ex, n3) =
                                                                    p4
                                                                    in
                                                                    (
                                                                    match n3 with
                                                                    | O ->
                                                                    None
                                                                    | S _ ->
                                                                    (match l with
                                                                    | [] ->
                                                                    let p5 =
                                                                    inject_Z
                                                                    (Z.pow
                                                                    (Zpos (XO
                                                                    (XI (XO
                                                                    XH)))) ex)
                                                                    in
                                                                    Some
                                                                    (
                                                                    if neg
                                                                    then 
                                                                    qdiv
                                                                    base0 p5
                                                                    else 
                                                                    qmult
                                                                    base0 p5)
                                                                    | _ :: _ ->
                                                                    None))
                                                                    | None ->
                                                                    None)
                                                                    else 
                                                                    let neg =
                                                                    false
                                                                    in
                                                                    (
                                                                    match 
                                                                    dec_digits
                                                                    r0 Z0 O with
                                                                    | Some p3 ->
                                                                    let (
                                                                    p4, l) =
                                                                    p3
                                                                    in
                                                                    let (
                                                                    ex, n3) =
                                                                    p4
                                                                    in
                                                                    (
                                                                    match n3 with
                                                                    | O ->
                                                                    None
                                                                    | S _ ->
                                                                    (match l with
                                                                    | [] ->
                                                                    let p5 =
                                                                    inject_Z
                                                                    (Z.pow
                                                                    (Zpos (XO
                                                                    (XI (XO
                                                                    XH)))) ex)
                                                                    in
                                                                    Some
                                                                    (
                                                                    if neg
                                                                    then 
                                                                    qdiv
                                                                    base0 p5
                                                                    else 
                                                                    qmult
                                                                    base0 p5)
                                                                    | _ :: _ ->
                                                                    None))
                                                                    | None ->
                                                                    None)
                                                                    else 
                                                                    let neg =
                                                                    false
                                                                    in
                                                                    (
                                                                    match 
                                                                    dec_digits
                                                                    r0 Z0 O with
                                                                    | Some p3 ->
                                                                    let (
                                                                    p4, l) =
                                                                    p3
                                                                    in
                                                                    let (
                                                                    ex, n3) =
                                                                    p4
                                                                    in
                                                                    (
                                                                    match n3 with
                                                                    | O ->
                                                                    None
                                                                    | S _ ->
                                                                    (match l with
                                                                    | [] ->
                                                                    let p5 =
                                                                    inject_Z
                                                                    (Z.pow
                                                                    (Zpos (XO
                                                                    (XI (XO
                                                                    XH)))) ex)
                                                                    in
                                                                    Some
                                                                    (
                                                                    if neg
                                                                    then 
                                                                    qdiv
                                                                    base0 p5
                                                                    else 
                                                                    qmult
                                                                    base0 p5)
                                                                    | _ :: _ ->
                                                                    None))
                                                                    | None ->
                                                                    None)
                                                                   else 
                                                                    let neg =
                                                                    false
                                                                    in
                                                                    (
                                                                    match 
                                                                    dec_digits
                                                                    r0 Z0 O with
                                                                    | Some p3 ->
                                                                    let (
                                                                    p4, l) =
                                                                    p3
                                                                    in
                                                                    let (
                                                                    ex, n3) =
                                                                    p4
                                                                    in
                                                                    (
                                                                    match n3 with
                                                                    | O ->
                                                                    None
                                                                    | S _ ->
                                                                    (match l with
                                                                    | [] ->
                                                                    let p5 =
                                                                    inject_Z
                                                                    (Z.pow
                                                                    (Zpos (XO
                                                                    (XI (XO
                                                                    XH)))) ex)
                                                                    in
                                                                    Some
                                                                    (
                                                                    if neg
                                                                    then 
                                                                    qdiv
                                                                    base0 p5
                                                                    else 
                                                                    qmult
                                                                    base0 p5)
                                                                    | _ :: _ ->
                                                                    None))
                                                                    | None ->
                                                                    None))
                                                                   a0)
                                                         else None)
                                            else (match dec_digits r ip O with
                                                  | Some p1 ->
                                                    let (p2, r2) = p1 in
                                                    let (m, k) = p2 in
                                                    let p3 = ((m, k), r2) in
                                                    let (p4, rest2) = p3 in
                                                    let (mant, scale) = p4 in
                                                    if Nat.eqb (add n1 k) O
                                                    then None
                                                    else let base = { qnum =
                                                           mant; qden =
                                                           (Coq_Pos.pow (XO
                                                             (XI (XO XH)))
                                                             (Coq_Pos.of_nat
                                                               scale)) }
                                                         in
                                                         let base0 =
                                                           if Nat.eqb scale O
                                                           then inject_Z mant
                                                           else base
                                                         in
                                                         (match rest2 with
                                                          | [] -> Some base0
                                                          | e :: r0 ->
                                                            if (||)
                                                                 ((=) e 'e')
                                                                 ((=) e 'E')
                                                            then (match r0 with
                                                                  | [] ->
                                                                    let neg =
                                                                    false
                                                                    in
                                                                    (
                                                                    match 
                                                                    dec_digits
                                                                    r0 Z0 O with
                                                                    | Some p5 ->
                                                                    let (
                                                                    p6, l) =
                                                                    p5
                                                                    in
                                                                    let (
                                                                    ex, n2) =
                                                                    p6
                                                                    in
                                                                    (
                                                                    match n2 with
                                                                    | O ->
                                                                    None
                                                                    | S _ ->
                                                                    (match l with
                                                                    | [] ->
                                                                    let p7 =
                                                                    inject_Z
                                                                    (Z.pow
                                                                    (Zpos (XO
                                                                    (XI (XO
                                                                    XH)))) ex)
                                                                    in
                                                                    Some
                                                                    (
                                                                    if neg
                                                                    then 
                                                                    qdiv
                                                                    base0 p7
                                                                    else 
                                                                    qmult
                                                                    base0 p7)
                                                                    | _ :: _ ->
                                                                    None))
                                                                    | None ->
                                                                    None)
                                                                  | a0 :: t ->
                                                                    (* If this appears, you're using Ascii internals. Please don't *)
 (fun f c ->
  let n = Char.code c in
  let h i = (n land (1 lsl i)) <> 0 in
  f (h 0) (h 1) (h 2) (h 3) (h 4) (h 5) (h 6) (h 7))
                                                                    (fun b7 b8 b9 b10 b11 b12 b13 b14 ->
                                                                    if b7
                                                                    then 
                                                                    if b8
                                                                    then 
                                                                    if b9
                                                                    then 
                                                                    let neg =
                                                                    false
                                                                    in
                                                                    (
                                                                    match 
                                                                    dec_digits
                                                                    r0 Z0 O with
                                                                    | Some p5 ->
                                                                    let (
                                                                    p6, l) =
                                                                    p5
                                                                    in
                                                                    let (
                                                                    ex, n2) =
                                                                    p6
                                                                    in
                                                                    (
                                                                    match n2 with
                                                                    | O ->
                                                                    None
                                                                    | S _ ->
                                                                    (match l with
                                                                    | [] ->
                                                                    let p7 =
                                                                    inject_Z
                                                                    (Z.pow
                                                                    (Zpos (XO
                                                                    (XI (XO
                                                                    XH)))) ex)
                                                                    in
                                                                    Some
                                                                    (
                                                                    if neg
                                                                    then 
                                                                    qdiv
                                                                    base0 p7
                                                                    else 
                                                                    qmult
                                                                    base0 p7)
                                                                    | _ :: _ ->
                                                                    None))
                                                                    | None ->
                                                                    None)
                                                                    else 
                                                                    if b10
                                                                    then 
                                                                    if b11
                                                                    then 
                                                                    let neg =
                                                                    false
                                                                    in
                                                                    (
                                                                    match 
                                                                    dec_digits
                                                                    r0 Z0 O with
                                                                    | Some p5 ->
                                                                    let (
                                                                    p6, l) =
                                                                    p5
                                                                    in
                                                                    let (
                                                                    ex, n2) =
                                                                    p6
                                                                    in
                                                                    (
                                                                    match n2 with
                                                                    | O ->
                                                                    None
                                                                    | S _ ->
                                                                    (match l with
                                                                    | [] ->
                                                                    let p7 =
                                                                    inject_Z
                                                                    (Z.pow
                                                                    (Zpos (XO
                                                                    (XI (XO
                                                                    XH)))) ex)
                                                                    in
                                                                    Some
                                                                    (
                                                                    if neg
                                                                    then 
                                                                    qdiv
                                                                    base0 p7
                                                                    else 
                                                                    qmult
                                                                    base0 p7)
                                                                    | _ :: _ ->
                                                                    None))
                                                                    | None ->
                                                                    None)
                                                                    else 
                                                                    if b12
                                                                    then 
                                                                    if b13
                                                                    then 
                                                                    let neg =
                                                                    false
                                                                    in
                                                                    (
                                                                    match 
                                                                    dec_digits
                                                                    r0 Z0 O with
                                                                    | Some p5 ->
                                                                    let (
                                                                    p6, l) =
                                                                    p5
                                                                    in
                                                                    let (
                                                                    ex, n2) =
                                                                    p6
                                                                    in
                                                                    (
                                                                    match n2 with
                                                                    | O ->
                                                                    None
                                                                    | S _ ->
                                                                    (match l with
                                                                    | [] ->
                                                                    let p7 =
                                                                    inject_Z
                                                                    (Z.pow
                                                                    (Zpos (XO
                                                                    (XI (XO
                                                                    XH)))) ex)
                                                                    in
                                                                    Some
                                                                    (
                                                                    if neg
                                                                    then 
                                                                    qdiv
                                                                    base0 p7
                                                                    else 
                                                                    qmult
                                                                    base0 p7)
                                                                    | _ :: _ ->
                                                                    None))
                                                                    | None ->
                                                                    None)
                                                                    else 
                                                                    if b14
                                                                    then 
                                                                    let neg =
                                                                    false
                                                                    in
                                                                    (
                                                                    match 
                                                                    dec_digits
                                                                    r0 Z0 O with
                                                                    | Some p5 ->
                                                                    let (
                                                                    p6, l) =
                                                                    p5
                                                                    in
                                                                    let (
                                                                    ex, n2) =
                                                                    p6
                                                                    in
                                                                    (
                                                                    match n2 with
                                                                    | O ->
                                                                    None
                                                                    | S _ ->
                                                                    (match l with
                                                                    | [] ->
                                                                    let p7 =
                                                                    inject_Z
                                                                    (Z.pow
                                                                    (Zpos (XO
                                                                    (XI (XO
                                                                    XH)))) ex)
                                                                    in
                                                                    Some
                                                                    (
                                                                    if neg
                                                                    then 
                                                                    qdiv
                                                                    base0 p7
                                                                    else 
                                                                    qmult
                                                                    base0 p7)
                                                                    | _ :: _ ->
                                                                    None))
                                                                    | None ->
                                                                    None)
                                                                    else 
                                                                    let neg =
                                                                    false
                                                                    in
                                                                    (
                                                                    match 
                                                                    dec_digits
                                                                    t Z0 O with
                                                                    | Some p5 ->
                                                                    let (
                                                                    p6, l) =
                                                                    p5
                                                                    in
                                                                    let (
                                                                    ex, n2) =
                                                                    p6
                                                                    in
                                                                    (
                                                                    match n2 with
                                                                    | O ->
                                                                    None
                                                                    | S _ ->
                                                                    (match l with
                                                                    | [] ->
                                                                    let p7 =
                                                                    inject_Z
                                                                    (Z.pow
                                                                    (Zpos (XO
                                                                    (XI (XO
                                                                    XH)))) ex)
                                                                    in
                                                                    Some
                                                                    (
                                                                    if neg
                                                                    then 
                                                                    qdiv
                                                                    base0 p7
                                                                    else 
                                                                    qmult
                                                                    base0 p7)
                                                                    | _ :: _ ->
                                                                    None))
                                                                    | None ->
                                                                    None)
                                                                    else 
                                                                    let neg =
                                                                    false
                                                                    in
                                                                    (
                                                                    match 
                                                                    dec_digits
                                                                    r0 Z0 O with
                                                                    | Some p5 ->
                                                                    let (
                                                                    p6, l) =
                                                                    p5
                                                                    in
                                                                    let (
                                                                    ex, n2) =
                                                                    p6
                                                                    in
                                                                    (
                                                                    match n2 with
                                                                    | O ->
                                                                    None
                                                                    | S _ ->
                                                                    (match l with
                                                                    | [] ->
                                                                    let p7 =
                                                                    inject_Z
                                                                    (Z.pow
                                                                    (Zpos (XO
                                                                    (XI (XO
                                                                    XH)))) ex)
                                                                    in
                                                                    Some
                                                                    (
                                                                    if neg
                                                                    then 
                                                                    qdiv
                                                                    base0 p7
                                                                    else 
                                                                    qmult
                                                                    base0 p7)
                                                                    | _ :: _ ->
                                                                    None))
                                                                    | None ->
                                                                    None)
                                                                    else 
                                                                    let neg =
                                                                    false
                                                                    in
                                                                    (
                                                                    match 
                                                                    dec_digits
                                                                    r0 Z0 O with
                                                                    | Some p5 ->
                                                                    let (
                                                                    p6, l) =
                                                                    p5
                                                                    in
                                                                    let (
                                                                    ex, n2) =
                                                                    p6
                                                                    in
                                                                    (
                                                                    match n2 with
                                                                    | O ->
                                                                    None
                                                                    | S _ ->
                                                                    (match l with
                                                                    | [] ->
                                                                    let p7 =
                                                                    inject_Z
                                                                    (Z.pow
                                                                    (Zpos (XO
                                                                    (XI (XO
                                                                    XH)))) ex)
                                                                    in
                                                                    Some
                                                                    (
                                                                    if neg
                                                                    then 
                                                                    qdiv
                                                                    base0 p7
                                                                    else 
                                                                    qmult
                                                                    base0 p7)
                                                                    | _ :: _ ->
                                                                    None))
                                                                    | None ->
                                                                    None)
                                                                    else 
                                                                    if b9
                                                                    then 
                                                                    if b10
                                                                    then 
                                                                    if b11
                                                                    then 
                                                                    let neg =
                                                                    false
                                                                    in
                                                                    (
                                                                    match 
                                                                    dec_digits
                                                                    r0 Z0 O with
                                                                    | Some p5 ->
                                                                    let (
                                                                    p6, l) =
                                                                    p5
                                                                    in
                                                                    let (
                                                                    ex, n2) =
                                                                    p6
                                                                    in
                                                                    (
                                                                    match n2 with
                                                                    | O ->
                                                                    None
                                                                    | S _ ->
                                                                    (match l with
                                                                    | [] ->
                                                                    let p7 =
                                                                    inject_Z
                                                                    (Z.pow
                                                                    (Zpos (XO
                                                                    (XI (XO
                                                                    XH)))) ex)
                                                                    in
                                                                    Some
                                                                    (
                                                                    if neg
                                                                    then 
                                                                    qdiv
                                                                    base0 p7
                                                                    else 
                                                                    qmult
                                                                    base0 p7)
                                                                    | _ :: _ ->
                                                                    None))
                                                                    | None ->
                                                                    None)
                                                                    else 
                                                                    if b12
                                                                    then 
                                                                    if b13
                                                                    then 
                                                                    let neg =
                                                                    false
                                                                    in
                                                                    (
                                                                    match 
                                                                    dec_digits
                                                                    r0 Z0 O with
                                                                    | Some p5 ->
                                                                    let (
                                                                    p6, l) =
                                                                    p5
                                                                    in
                                                                    let (
                                                                    ex, n2) =
                                                                    p6
                                                                    in
                                                                    (
                                                                    match n2 with
                                                                    | O ->
                                                                    None
                                                                    | S _ ->
                                                                    (match l with
                                                                    | [] ->
                                                                    let p7 =
                                                                    inject_Z
                                                                    (Z.pow
                                                                    (Zpos (XO
                                                                    (XI (XO
                                                                    XH)))) ex)
                                                                    in
                                                                    Some
                                                                    (
                                                                    if neg
                                                                    then 
                                                                    qdiv
                                                                    base0 p7
                                                                    else 
                                                                    qmult
                                                                    base0 p7)
                                                                    | _ :: _ ->
                                                                    None))
                                                                    | None ->
                                                                    None)
                                                                    else 
                                                                    if b14
                                                                    then 
                                                                    let neg =
                                                                    false
                                                                    in
                                                                    (
                                                                    match 
                                                                    dec_digits
                                                                    r0 Z0 O with
                                                                    | Some p5 ->
                                                                    let (
                                                                    p6, l) =
                                                                    p5
                                                                    in
                                                                    let (
                                                                    ex, n2) =
                                                                    p6
                                                                    in
                                                                    (
                                                                    match n2 with
                                                                    | O ->
                                                                    None
                                                                    | S _ ->
                                                                    (match l with
                                                                    | [] ->
                                                                    let p7 =
                                                                    inject_Z
                                                                    (Z.pow
                                                                    (Zpos (XO
                                                                    (XI (XO
                                                                    XH)))) ex)
                                                                    in
                                                                    Some
                                                                    (
                                                                    if neg
                                                                    then 
                                                                    qdiv
                                                                    base0 p7
                                                                    else 
                                                                    qmult
                                                                    base0 p7)
                                                                    | _ :: _ ->
                                                                    None))
                                                                    | None ->
                                                                    None)
                                                                    else 
                                                                    let neg =
                                                                    true
                                                                    in
                                                                    (
                                                                    match 
                                                                    dec_digits
                                                                    t Z0 O with
                                                                    | Some p5 ->
                                                                    let (
                                                                    p6, l) =
                                                                    p5
                                                                    in
                                                                    let (
                                                                    ex, n2) =
                                                                    p6
                                                                    in
                                                                    (
                                                                    match n2 with
                                                                    | O ->
                                                                    None
                                                                    | S _ ->
                                                                    (match l with
                                                                    | [] ->
                                                                    let p7 =
                                                                    inject_Z
                                                                    (Z.pow
                                                                    (Zpos (XO
                                                                    (XI (XO
                                                                    XH)))) ex)
                                                                    in
                                                                    Some
                                                                    (
                                                                    if neg
                                                                    then 
                                                                    qdiv
                                                                    base0 p7
                                                                    else 
                                                                    qmult
                                                                    base0 p7)
                                                                    | _ :: _ ->
                                                                    None))
                                                                    | None ->
                                                                    None)
                                                                    else 
                                                                    let neg =
                                                                    false
                                                                    in
                                                                    (
                                                                    match 
                                                                    dec_digits
                                                                    r0 Z0 O with
                                                                    | Some p5 ->
                                                                    let (
                                                                    p6, l) =
                                                                    p5
                                                                    in
                                                                    let (
                                                                    ex, n2) =
                                                                    p6
                                                                    in
                                                                    (
                                                                    match n2 with
                                                                    | O ->
                                                                    None
                                                                    | S _ ->
                                                                    (match l with
                                                                    | [] ->
                                                                    let p7 =
                                                                    inject_Z
                                                                    (Z.pow
                                                                    (Zpos (XO
                                                                    (XI (XO
                                                                    XH)))) ex)
                                                                    in
                                                                    Some
                                                                    (
                                                                    if neg
                                                                    then 
                                                                    qdiv
                                                                    base0 p7
                                                                    else 
                                                                    qmult
                                                                    base0 p7)
                                                                    | _ :: _ ->
                                                                    None))
                                                                    | None ->
                                                                    None)
                                                                    else 
                                                                    let neg =
                                                                    false
                                                                    in
                                                                    (
                                                                    match 
                                                                    dec_digits
                                                                    r0 Z0 O with
                                                                    | Some p5 ->
                                                                    let (
                                                                    p6, l) =
                                                                    p5
                                                                    in
                                                                    let (
                                                                    ex, n2) =
                                                                    p6
                                                                    in
                                                                    (
                                                                    match n2 with
                                                                    | O ->
                                                                    None
                                                                    | S _ ->
                                                                    (match l with
                                                                    | [] ->
                                                                    let p7 =
                                                                    inject_Z
                                                                    (Z.pow
                                                                    (Zpos (XO
                                                                    (XI (XO
                                                                    XH)))) ex)
                                                                    in
                                                                    Some
                                                                    (
                                                                    if neg
                                                                    then 
                                                                    qdiv
                                                                    base0 p7
                                                                    else 
                                                                    qmult
                                                                    base0 p7)
                                                                    | _ :: _ ->
                                                                    None))
                                                                    | None ->
                                                                    None)
                                                                    else 
                                                                    let neg =
                                                                    false
                                                                    in
                                                                    (
                                                                    match 
                                                                    dec_digits
                                                                    r0 Z0 O with
                                                                    | Some p5 ->
                                                                    let (
                                                                    p6, l) =
                                                                    p5
                                                                    in
                                                                    let (
                                                                    ex, n2) =
                                                                    p6
                                                                    in
                                                                    (
                                                                    match n2 with
                                                                    | O ->
                                                                    None
                                                                    | S _ ->
                                                                    (match l with
                                                                    | [] ->
                                                                    let p7 =
                                                                    inject_Z
                                                                    (Z.pow
                                                                    (Zpos (XO
                                                                    (XI (XO
                                                                    XH)))) ex)
                                                                    in
                                                                    Some
                                                                    (
                                                                    if neg
                                                                    then 
                                                                    qdiv
                                                                    base0 p7
                                                                    else 
                                                                    qmult
                                                                    base0 p7)
                                                                    | _ :: _ ->
                                                                    None))
                                                                    | None ->
                                                                    None)
                                                                    else 
                                                                    let neg =
                                                                    false
                                                                    in
                                                                    (
                                                                    match 
                                                                    dec_digits
                                                                    r0 Z0 O with
                                                                    | Some p5 ->
                                                                    let (
                                                                    p6, l) =
                                                                    p5
                                                                    in
                                                                    let (
                                                                    ex, n2) =
                                                                    p6
                                                                    in
                                                                    (
                                                                    match n2 with
                                                                    | O ->
                                                                    None
                                                                    | S _ ->
                                                                    (match l with
                                                                    | [] ->
                                                                    let p7 =
                                                                    inject_Z
                                                                    (Z.pow
                                                                    (Zpos (XO
                                                                    (XI (XO
                                                                    XH)))) ex)
                                                                    in
                                                                    Some
                                                                    (
                                                                    if neg
                                                                    then 
                                                                    qdiv
                                                                    base0 p7
                                                                    else 
                                                                    qmult
                                                                    base0 p7)
                                                                    | _ :: _ ->
                                                                    None))
                                                                    | None ->
                                                                    None))
                                                                    a0)
                                                            else None)
                                                  | None ->
                                                    let p1 = ((ip, O), rest0)
                                                    in
                                                    let n2 = O in
                                                    let (p2, rest2) = p1 in
                                                    let (mant, scale) = p2 in
                                                    if Nat.eqb (add n1 n2) O
                                                    then None
                                                    else let base = { qnum =
                                                           mant; qden =
                                                           (Coq_Pos.pow (XO
                                                             (XI (XO XH)))
                                                             (Coq_Pos.of_nat
                                                               scale)) }
                                                         in
                                                         let base0 =
                                                           if Nat.eqb scale O
                                                           then inject_Z mant
                                                           else base
                                                         in
                                                         (match rest2 with
                                                          | [] -> Some base0
                                                          | e :: r0 ->
                                                            if (||)
                                                                 ((=) e 'e')
                                                                 ((=) e 'E')
                                                            then (match r0 with
                                                                  | [] ->
                                                                    let neg =
                                                                    false
                                                                    in
                                                                    (
                                                                    match 
                                                                    dec_digits
                                                                    r0 Z0 O with
                                                                    | Some p3 ->
                                                                    let (
                                                                    p4, l) =
                                                                    p3
                                                                    in
                                                                    let (
                                                                    ex, n3) =
                                                                    p4
                                                                    in
                                                                    (
                                                                    match n3 with
                                                                    | O ->
                                                                    None
                                                                    | S _ ->
                                                                    (match l with
                                                                    | [] ->
                                                                    let p5 =
                                                                    inject_Z
                                                                    (Z.pow
                                                                    (Zpos (XO
                                                                    (XI (XO
                                                                    XH)))) ex)
                                                                    in
                                                                    Some
                                                                    (
                                                                    if neg
                                                                    then 
                                                                    qdiv
                                                                    base0 p5
                                                                    else 
                                                                    qmult
                                                                    base0 p5)
                                                                    | _ :: _ ->
                                                                    None))
                                                                    | None ->
                                                                    None)
                                                                  | a0 :: t ->
                                                                    (* If this appears, you're using Ascii internals. Please don't *)
 (fun f c ->
  let n = Char.code c in
  let h i = (n land (1 lsl i)) <> 0 in
  f (h 0) (h 1) (h 2) (h 3) (h 4) (h 5) (h 6) (h 7))
                                                                    (fun b7 b8 b9 b10 b11 b12 b13 b14 ->
                                                                    if b7
                                                                    then 
                                                                    if b8
                                                                    then 
                                                                    if b9
                                                                    then 
                                                                    let neg =
                                                                    false
                                                                    in
                                                                    (
                                                                    match 
                                                                    dec_digits
                                                                    r0 Z0 O with
                                                                    | Some p3 ->
                                                                    let (
                                                                    p4, l) =
                                                                    p3
                                                                    in
                                                                    let (
                                                                    ex, n3) =
                                                                    p4
                                                                    in
                                                                    (
                                                                    match n3 with
                                                                    | O ->
                                                                    None
                                                                    | S _ ->
                                                                    (match l with
                                                                    | [] ->
                                                                    let p5 =
                                                                    inject_Z
                                                                    (Z.pow
                                                                    (Zpos (XO
                                                                    (XI (XO
                                                                    XH)))) ex)
                                                                    in
                                                                    Some
                                                                    (
                                                                    if neg
                                                                    then 
                                                                    qdiv
                                                                    base0 p5
                                                                    else 
                                                                    qmult
                                                                    base0 p5)
                                                                    | _ :: _ ->
                                                                    None))
                                                                    | None ->
                                                                    None)
                                                                    else 
                                                                    if b10
                                                                    then 
                                                                    if b11
                                                                    then 
                                                                    let neg =
                                                                    false
                                                                    in
                                                                    (
                                                                    match 
                                                                    dec_digits
                                                                    r0 Z0 O with
                                                                    | Some p3 ->
                                                                    let (
                                                                    p4, l) =
                                                                    p3
                                                                    in
                                                                    let (
                                                                    ex, n3) =
                                                                    p4
                                                                    in
                                                                    (
                                                                    match n3 with
                                                                    | O ->
                                                                    None
                                                                    | S _ ->
                                                                    (match l with
                                                                    | [] ->
                                                                    let p5 =
                                                                    inject_Z
                                                                    (Z.pow
                                                                    (Zpos (XO
                                                                    (XI (XO
                                                                    XH)))) ex)
                                                                    in
                                                                    Some
                                                                    (
                                                                    if neg
                                                                    then 
                                                                    qdiv
                                                                    base0 p5
                                                                    else 
                                                                    qmult
                                                                    base0 p5)
                                                                    | _ :: _ ->
                                                                    None))
                                                                    | None ->
                                                                    None)
                                                                    else 
                                                                    if b12
                                                                    then 
                                                                    if b13
                                                                    then 
                                                                    let neg =
                                                                    false
                                                                    in
                                                                    (
                                                                    match 
                                                                    dec_digits
                                                                    r0 Z0 O with
                                                                    | Some p3 ->
                                                                    let (
                                                                    p4, l) =
                                                                    p3
                                                                    in
                                                                    let (
                                                                    ex, n3) =
                                                                    p4
                                                                    in
                                                                    (
                                                                    match n3 with
                                                                    | O ->
                                                                    None
                                                                    | S _ ->
                                                                    (match l with
                                                                    | [] ->
                                                                    let p5 =
                                                                    inject_Z
                                                                    (Z.pow
                                                                    (Zpos (XO
                                                                    (XI (XO
                                                                    XH)))) ex)
                                                                    in
                                                                    Some
                                                                    (
                                                                    if neg
                                                                    then 
                                                                    qdiv
                                                                    base0 p5
                                                                    else 
                                                                    qmult
                                                                    base0 p5)
                                                                    | _ :: _ ->
                                                                    None))
                                                                    | None ->
                                                                    None)
                                                                    else 
                                                                    if b14
                                                                    then 
                                                                    let neg =
                                                                    false
                                                                    in
                                                                    (
                                                                    match 
                                                                    dec_digits
                                                                    r0 Z0 O with
                                                                    | Some p3 ->
                                                                    let (
                                                                    p4, l) =
                                                                    p3
                                                                    in
                                                                    let (
                                                                    ex, n3) =
                                                                    p4
                                                                    in
                                                                    (
                                                                    match n3 with
                                                                    | O ->
                                                                    None
                                                                    | S _ ->
                                                                    (match l with
                                                                    | [] ->
                                                                    let p5 =
                                                                    inject_Z
                                                                    (Z.pow
                                                                    (Zpos (XO
                                                                    (XI (XO
                                                                    XH)))) ex)
                                                                    in
                                                                    Some
                                                                    (
                                                                    if neg
                                                                    then 
                                                                    qdiv
                                                                    base0 p5
                                                                    else 
                                                                    qmult
                                                                    base0 p5)
                                                                    | _ :: _ ->
                                                                    None))
                                                                    | None ->
                                                                    None)
                                                                    else 
                                                                    let neg =
                                                                    false
                                                                    in
                                                                    (
                                                                    match 
                                                                    dec_digits
                                                                    t Z0 O with
                                                                    | Some p3 ->
                                                                    let (
                                                                    p4, l) =
                                                                    p3
                                                                    in
                                                                    let (
                                                                    ex, n3) =
                                                                    p4
                                                                    in
                                                                    (
                                                                    match n3 with
                                                                    | O ->
                                                                    None
                                                                    | S _ ->
                                                                    (match l with
                                                                    | [] ->
                                                                    let p5 =
                                                                    inject_Z
                                                                    (Z.pow
                                                                    (Zpos (XO
                                                                    (XI (XO
                                                                    XH)))) ex)
                                                                    in
                                                                    Some
                                                                    (
                                                                    if neg
                                                                    then 
                                                                    qdiv
                                                                    base0 p5
                                                                    else 
                                                                    qmult
                                                                    base0 p5)
                                                                    | _ :: _ ->
                                                                    None))
                                                                    | None ->
                                                                    None)
                                                                    else 
                                                                    let neg =
                                                                    false
                                                                    in
                                                                    (
                                                                    match 
                                                                    dec_digits
                                                                    r0 Z0 O with
                                                                    | Some p3 ->
                                                                    let (
                                                                    p4, l) =
                                                                    p3
                                                                    in
                                                                    let (
                                                                    ex, n3) =
                                                                    p4
                                                                    in
                                                                    (
                                                                    match n3 with
                                                                    | O ->
                                                                    None
                                                                    | S _ ->
                                                                    (match l with
                                                                    | [] ->
                                                                    let p5 =
                                                                    inject_Z
                                                                    (Z.pow
                                                                    (Zpos (XO
                                                                    (XI (XO
                                                                    XH)))) ex)
                                                                    in
                                                                    Some
                                                                    (
                                                                    if neg
                                                                    then 
                                                                    qdiv
                                                                    base0 p5
                                                                    else 
                                                                    qmult
                                                                    base0 p5)
                                                                    | _ :: _ ->
                                                                    None))
                                                                    | None ->
                                                                    None)
                                                                    else 
                                                                    let neg =
                                                                    false
                                                                    in
                                                                    (
                                                                    match 
                                                                    dec_digits
                                                                    r0 Z0 O with
                                                                    | Some p3 ->
                                                                    let (
                                                                    p4, l) =
                                                                    p3
                                                                    in
                                                                    let (
                                                                    ex, n3) =
                                                                    p4
                                                                    in
                                                                    (
                                                                    match n3 with
                                                                    | O ->
                                                                    None
                                                                    | S _ ->
                                                                    (match l with
                                                                    | [] ->
                                                                    let p5 =
                                                                    inject_Z
                                                                    (Z.pow
                                                                    (Zpos (XO
                                                                    (XI (XO
                                                                    XH)))) ex)
                                                                    in
                                                                    Some
                                                                    (
                                                                    if neg
                                                                    then 
                                                                    qdiv
                                                                    base0 p5
                                                                    else 
                                                                    qmult
                                                                    base0 p5)
                                                                    | _ :: _ ->
                                                                    None))
                                                                    | None ->
                                                                    None)
                                                                    else 
                                                                    if b9
                                                                    then 
                                                                    if b10
                                                                    then 
                                                                    if b11
                                                                    then 
                                                                    let neg =
                                                                    false
                                                                    in
                                                                    (
                                                                    match 
                                                                    dec_digits
                                                                    r0 Z0 O with
                                                                    | Some p3 ->
                                                                    let (
                                                                    p4, l) =
                                                                    p3
                                                                    in
                                                                    let (
                                                                    ex, n3) =
                                                                    p4
                                                                    in
                                                                    (
                                                                    match n3 with
                                                                    | O ->
                                                                    None
                                                                    | S _ ->
                                                                    (match l with
                                                                    | [] ->
                                                                    let p5 =
                                                                    inject_Z
                                                                    (Z.pow
                                                                    (Zpos (XO
                                                                    (XI (XO
                                                                    XH)))) ex)
                                                                    in
                                                                    Some
                                                                    (
                                                                    if neg
                                                                    then 
                                                                    qdiv
                                                                    base0 p5
                                                                    else 
                                                                    qmult
                                                                    base0 p5)
                                                                    | _ :: _ ->
                                                                    None))
                                                                    | None ->
                                                                    None)
                                                                    else 
                                                                    if b12
                                                                    then 
                                                                    if b13
                                                                    then 
                                                                    let neg =
                                                                    false
                                                                    in
                                                                    (
                                                                    match 
                                                                    dec_digits
                                                                    r0 Z0 O with
                                                                    | Some p3 ->
                                                                    let (
                                                                    p4, l) =
                                                                    p3
                                                                    in
                                                                    let (
                                                                    ex, n3) =
                                                                    p4
                                                                    in
                                                                    (
                                                                    match n3 with
                                                                    | O ->
                                                                    None
                                                                    | S _ ->
                                                                    (match l with
                                                                    | [] ->
                                                                    let p5 =
                                                                    inject_Z
                                                                    (Z.pow
                                                                    (Zpos (XO
                                                                    (XI (XO
                                                                    XH)))) ex)
                                                                    in
                                                                    Some
                                                                    (
                                                                    if neg
                                                                    then 
                                                                    qdiv
                                                                    base0 p5
                                                                    else 
                                                                    qmult
                                                                    base0 p5)
                                                                    | _ :: _ ->
                                                                    None))
                                                                    | None ->
                                                                    None)
                                                                    else 
                                                                    if b14
                                                                    then 
                                                                    let neg =
                                                                    false
                                                                    in
                                                                    (
                                                                    match 
                                                                    dec_digits
                                                                    r0 Z0 O with
                                                                    | Some p3 ->
                                                                    let (
                                                                    p4, l) =
                                                                    p3
                                                                    in
                                                                    let (
                                                                    ex, n3) =
                                                                    p4
                                                                    in
                                                                    (
                                                                    match n3 with
                                                                    | O ->
                                                                    None
                                                                    | S _ ->
                                                                    (match l with
                                                                    | [] ->
                                                                    let p5 =
                                                                    inject_Z
                                                                    (Z.pow
                                                                    (Zpos (XO
                                                                    (XI (XO
                                                                    XH)))) ex)
                                                                    in
                                                                    Some
                                                                    (
                                                                    if neg
                                                                    then 
                                                                    qdiv
                                                                    base0 p5
                                                                    else 
                                                                    qmult
                                                                    base0 p5)
                                                                    | _ :: _ ->
                                                                    None))
                                                                    | None ->
                                                                    None)
                                                                    else 
                                                                    let neg =
                                                                    true
                                                                    in
                                                                    (
                                                                    match 
                                                                    dec_digits
                                                                    t Z0 O with
                                                                    | Some p3 ->
                                                                    let (
                                                                    p4, l) =
                                                                    p3
                                                                    in
                                                                    let (
                                                                    ex, n3) =
                                                                    p4
                                                                    in
                                                                    (
                                                                    match n3 with
                                                                    | O ->
                                                                    None
                                                                    | S _ ->
                                                                    (match l with
                                                                    | [] ->
                                                                    let p5 =
                                                                    inject_Z
                                                                    (Z.pow
                                                                    (Zpos (XO
                                                                    (XI (XO
                                                                    XH)))) ex)
                                                                    in
                                                                    Some
                                                                    (
                                                                    if neg
                                                                    then 
                                                                    qdiv
                                                                    base0 p5
                                                                    else 
                                                                    qmult
                                                                    base0 p5)
                                                                    | _ :: _ ->
                                                                    None))
                                                                    | None ->
                                                                    None)
                                                                    else 
                                                                    let neg =
                                                                    false
                                                                    in
                                                                    (
                                                                    match 
                                                                    dec_digits
                                                                    r0 Z0 O with
                                                                    | Some p3 ->
                                                                    let (
                                                                    p4, l) =
                                                                    p3
                                                                    in
                                                                    let (
                                                                    ex, n3) =
                                                                    p4
                                                                    in
                                                                    (
                                                                    match n3 with
                                                                    | O ->
                                                                    None
                                                                    | S _ ->
                                                                    (match l with
                                                                    | [] ->
                                                                    let p5 =
                                                                    inject_Z
                                                                    (Z.pow
                                                                    (Zpos (XO
                                                                    (XI (XO
                                                                    XH)))) ex)
                                                                    in
                                                                    Some
                                                                    (
                                                                    if neg
                                                                    then 
                                                                    qdiv
                                                                    base0 p5
                                                                    else 
                                                                    qmult
                                                                    base0 p5)
                                                                    | _ :: _ ->
                                                                    None))
                                                                    | None ->
                                                                    None)
                                                                    else 
                                                                    let neg =
                                                                    false
                                                                    in
                                                                    (
                                                                    match 
                                                                    dec_digits
                                                                    r0 Z0 O with
                                                                    | Some p3 ->
                                                                    let (
                                                                    p4, l) =
                                                                    p3
                                                                    in
                                                                    let (
                                                                    ex, n3) =
                                                                    p4
                                                                    in
                                                                    (
                                                                    match n3 with
                                                                    | O ->
                                                                    None
                                                                    | S _ ->
                                                                    (match l with
                                                                    | [] ->
                                                                    let p5 =
                                                                    inject_Z
                                                                    (Z.pow
                                                                    (Zpos (XO
                                                                    (XI (XO
                                                                    XH)))) ex)
                                                                    in
                                                                    Some
                                                                    (
                                                                    if neg
                                                                    then 
                                                                    qdiv
                                                                    base0 p5
                                                                    else 
                                                                    qmult
                                                                    base0 p5)
                                                                    | _ :: _ ->
                                                                    None))
                                                                    | None ->
                                                                    None)
                                                                    else 
                                                                    let neg =
                                                                    false
                                                                    in
                                                                    (
                                                                    match 
                                                                    dec_digits
                                                                    r0 Z0 O with
                                                                    | Some p3 ->
                                                                    let (
                                                                    p4, l) =
                                                                    p3
                                                                    in
                                                                    let (
                                                                    ex, n3) =
                                                                    p4
                                                                    in
                                                                    (
                                                                    match n3 with
                                                                    | O ->
                                                                    None
                                                                    | S _ ->
                                                                    (match l with
                                                                    | [] ->
                                                                    let p5 =
                                                                    inject_Z
                                                                    (Z.pow
                                                                    (Zpos (XO
                                                                    (XI (XO
                                                                    XH)))) ex)
                                                                    in
                                                                    Some
                                                                    (
                                                                    if neg
                                                                    then 
                                                                    qdiv
                                                                    base0 p5
                                                                    else 
                                                                    qmult
                                                                    base0 p5)
                                                                    | _ :: _ ->
                                                                    None))
                                                                    | None ->
                                                                    None)
                                                                    else 
                                                                    let neg =
                                                                    false
                                                                    in
                                                                    (
                                                                    match 
                                                                    dec_digits
                                                                    r0 Z0 O with
                                                                    | Some p3 ->
                                                                    let (
                                                                    p4, l) =
                                                                    p3
                                                                    in
                                                                    let (
                                                                    ex, n3) =
                                                                    p4
                                                                    in
                                                                    (
                                                                    match n3 with
                                                                    | O ->
                                                                    None
                                                                    | S _ ->
                                                                    (match l with
                                                                    | [] ->
                                                                    let p5 =
                                                                    inject_Z
                                                                    (Z.pow
                                                                    (Zpos (XO
                                                                    (XI (XO
                                                                    XH)))) ex)
                                                                    in
                                                                    Some
                                                                    (
                                                                    if neg
                                                                    then 
                                                                    qdiv
                                                                    base0 p5
                                                                    else 
                                                                    qmult
                                                                    base0 p5)
                                                                    | _ :: _ ->
                                                                    None))
                                                                    | None ->
                                                                    None))
                                                                    a0)
                                                            else None))
                                  else let p1 = ((ip, O), rest0) in
                                       let n2 = O in
                                       let (p2, rest2) = p1 in
                                       let (mant, scale) = p2 in
                                       if Nat.eqb (add n1 n2) O
                                       then None
                                       else let base = { qnum = mant; qden =
                                              (Coq_Pos.pow (XO (XI (XO XH)))
                                                (Coq_Pos.of_nat scale)) }
                                            in
                                            let base0 =
                                              if Nat.eqb scale O
                                              then inject_Z mant
                                              else base
                                            in
                                            (match rest2 with
                                             | [] -> Some base0
                                             | e :: r0 ->
                                               if (||) ((=) e 'e') ((=) e 'E')
                                               then (match r0 with
                                                     | [] ->
                                                       let neg = false in
                                                       (match dec_digits r0
                                                                Z0 O with
                                                        | Some p3 ->
                                                          let (p4, l) = p3 in
                                                          let (ex, n3) = p4 in
                                                          (match n3 with
                                                           | O -> None
                                                           | S _ ->
                                                             (match l with
                                                              | [] ->
                                                                let p5 =
                                                                  inject_Z
                                                                    (Z.pow
                                                                    (Zpos (XO
                                                                    (XI (XO
                                                                    XH)))) ex)
                                                                in
                                                                Some
                                                                (if neg
                                                                 then 
                                                                   qdiv base0
                                                                    p5
                                                                 else 
                                                                   qmult
                                                                    base0 p5)
                                                              | _ :: _ -> None))
                                                        | None -> None)
                                                     | a0 :: t ->
                                                       (* If this appears, you're using Ascii internals. Please don't *)
 (fun f c ->
  let n = Char.code c in
  let h i = (n land (1 lsl i)) <> 0 in
  f (h 0) (h 1) (h 2) (h 3) (h 4) (h 5) (h 6) (h 7))
                                                         (fun b7 b8 b9 b10 b11 b12 b13 b14 ->
                                                         if b7
                                                         then if b8
                                                              then if b9
                                                                   then 
                                                                    let neg =
                                                                    false
                                                                    in
                                                                    (
                                                                    match 
                                                                    dec_digits
                                                                    r0 Z0 O with
                                                                    | Some p3 ->
                                                                    let (
                                                                    p4, l) =
                                                                    p3
                                                                    in
                                                                    let (
                                                                    ex, n3) =
                                                                    p4
                                                                    in
                                                                    (
                                                                    match n3 with
                                                                    | O ->
                                                                    None
                                                                    | S _ ->
                                                                    (match l with
                                                                    | [] ->
                                                                    let p5 =
                                                                    inject_Z
                                                                    (Z.pow
                                                                    (Zpos (XO
                                                                    (XI (XO
                                                                    XH)))) ex)
                                                                    in
                                                                    Some
                                                                    (
                                                                    if neg
                                                                    then 
                                                                    qdiv
                                                                    base0 p5
                                                                    else 
                                                                    qmult
                                                                    base0 p5)
                                                                    | _ :: _ ->
                                                                    None))
                                                                    | None ->
                                                                    None)
                                                                   else 
                                                                    if b10
                                                                    then 
                                                                    if b11
                                                                    then 
                                                                    let neg =
                                                                    false
                                                                    in
                                                                    (
                                                                    match 
                                                                    dec_digits
                                                                    r0 Z0 O with
                                                                    | Some p3 ->
                                                                    let (
                                                                    p4, l) =
                                                                    p3
                                                                    in
                                                                    let (
                                                                    ex, n3) =
                                                                    p4
                                                                    in
                                                                    (
                                                                    match n3 with
                                                                    | O ->
                                                                    None
                                                                    | S _ ->
                                                                    (match l with
                                                                    | [] ->
                                                                    let p5 =
                                                                    inject_Z
                                                                    (Z.pow
                                                                    (Zpos (XO
                                                                    (XI (XO
                                                                    XH)))) ex)
                                                                    in
                                                                    Some
                                                                    (
                                                                    if neg
                                                                    then 
                                                                    qdiv
                                                                    base0 p5
                                                                    else 
                                                                    qmult
                                                                    base0 p5)
                                                                    | _ :: _ ->
                                                                    None))
                                                                    | None ->
                                                                    None)
                                                                    else 
                                                                    if b12
                                                                    then 
                                                                    if b13
                                                                    then 
                                                                    let neg =
                                                                    false
                                                                    in
                                                                    (
                                                                    match 
                                                                    dec_digits
                                                                    r0 Z0 O with
                                                                    | Some p3 ->
                                                                    let (
                                                                    p4, l) =
                                                                    p3
                                                                    in
                                                                    let (
                                                                    ex, n3) =
                                                                    p4
                                                                    in
                                                                    (
                                                                    match n3 with
                                                                    | O ->
                                                                    None
                                                                    | S _ ->
                                                                    (match l with
                                                                    | [] ->
                                                                    let p5 =
                                                                    inject_Z
                                                                    (Z.pow
                                                                    (Zpos (XO
                                                                    (XI (XO
                                                                    XH)))) ex)
                                                                    in
                                                                    Some
                                                                    (
                                                                    if neg
                                                                    then 
                                                                    qdiv
                                                                    base0 p5
                                                                    else 
                                                                    qmult
                                                                    base0 p5)
                                                                    | _ :: _ ->
                                                                    None))
                                                                    | None ->
                                                                    None)
                                                                    else 
                                                                    if b14
                                                                    then 
                                                                    let neg =
                                                                    false
                                                                    in
                                                                    (
                                                                    match 
                                                                    dec_digits
                                                                    r0 Z0 O with
                                                                    | Some p3 ->
                                                                    let (
                                                                    p4, l) =
                                                                    p3
                                                                    in
                                                                    let (
                                                                    ex, n3) =
                                                                    p4
                                                                    in
                                                                    (
                                                                    match n3 with
                                                                    | O ->
                                                                    None
                                                                    | S _ ->
                                                                    (match l with
                                                                    | [] ->
                                                                    let p5 =
                                                                    inject_Z
                                                                    (Z.pow
                                                                    (Zpos (XO
                                                                    (XI (XO
                                                                    XH)))) ex)
                                                                    in
                                                                    Some
                                                                    (
                                                                    if neg
                                                                    then 
                                                                    qdiv
                                                                    base0 p5
                                                                    else 
                                                                    qmult
                                                                    base0 p5)
                                                                    | _ :: _ ->
                                                                    None))
                                                                    | None ->
                                                                    None)
                                                                    else 
                                                                    let neg =
                                                                    false
                                                                    in
                                                                    (
                                                                    match 
                                                                    dec_digits
                                                                    t Z0 O with
                                                                    | Some p3 ->
                                                                    let (
                                                                    p4, l) =
                                                                    p3
                                                                    in
                                                                    let (
                                                                    ex, n3) =
                                                                    p4
                                                                    in
                                                                    (
                                                                    match n3 with
                                                                    | O ->
                                                                    None
                                                                    | S _ ->
                                                                    (match l with
                                                                    | [] ->
                                                                    let p5 =
                                                                    inject_Z
                                                                    (Z.pow
                                                                    (Zpos (XO
                                                                    (XI (XO
                                                                    XH)))) ex)
                                                                    in
                                                                    Some
                                                                    (
                                                                    if neg
                                                                    then 
                                                                    qdiv
                                                                    base0 p5
                                                                    else 
                                                                    qmult
                                                                    base0 p5)
                                                                    | _ :: _ ->
                                                                    None))
                                                                    | None ->
                                                                    None)
                                                                    else 
                                                                    let neg =
                                                                    false
                                                                    in
                                                                    (
                                                                    match 
                                                                    dec_digits
                                                                    r0 Z0 O with
                                                                    | Some p3 ->
                                                                    let (
                                                                    p4, l) =
                                                                    p3
                                                                    in
                                                                    let (
                                                                    ex, n3) =
                                                                    p4
                                                                    in
                                                                    (
                                                                    match n3 with
                                                                    | O ->
                                                                    None
                                                                    | S _ ->
                                                                    (match l with
                                                                    | [] ->
                                                                    let p5 =
                                                                    inject_Z
                                                                    (Z.pow
                                                                    (Zpos (XO
                                                                    (XI (XO
                                                                    XH)))) ex)
                                                                    in
                                                                    Some
                                                                    (
                                                                    if neg
                                                                    then 
                                                                    qdiv
                                                                    base0 p5
                                                                    else 
                                                                    qmult
                                                                    base0 p5)
                                                                    | _ :: _ ->
                                                                    None))
                                                                    | None ->
                                                                    None)
                                                                    else 
                                                                    let neg =
                                                                    false
                                                                    in
                                                                    (
                                                                    match 
                                                                    dec_digits
                                                                    r0 Z0 O with
                                                                    | Some p3 ->
                                                                    let (
                                                                    p4, l) =
                                                                    p3
                                                                    in
                                                                    let (
                                                                    ex, n3) =
                                                                    p4
                                                                    in
                                                                    (
                                                                    match n3 with
                                                                    | O ->
                                                                    None
                                                                    | S _ ->
                                                                    (match l with
                                                                    | [] ->
                                                                    let p5 =
                                                                    inject_Z
                                                                    (Z.pow
                                                                    (Zpos (XO
                                                                    (XI (XO
                                                                    XH)))) ex)
                                                                    in
                                                                    Some
                                                                    (
                                                                    if neg
                                                                    then 
                                                                    qdiv
                                                                    base0 p5
                                                                    else 
                                                                    qmult
                                                                    base0 p5)
                                                                    | _ :: _ ->
                                                                    None))
                                                                    | None ->
                                                                    None)
                                                              else if b9
                                                                   then 
                                                                    if b10
                                                                    then 
                                                                    if b11
                                                                    then 
                                                                    let neg =
                                                                    false
                                                                    in
                                                                    (
                                                                    match 
                                                                    dec_digits
                                                                    r0 Z0 O with
                                                                    | Some p3 ->
                                                                    let (
                                                                    p4, l) =
                                                                    p3
                                                                    in
                                                                    let (
                                                                    ex, n3) =
                                                                    p4
                                                                    in
                                                                    (
                                                                    match n3 with
                                                                    | O ->
                                                                    None
                                                                    | S _ ->
                                                                    (match l with
                                                                    | [] ->
                                                                    let p5 =
                                                                    inject_Z
                                                                    (Z.pow
                                                                    (Zpos (XO
                                                                    (XI (XO
                                                                    XH)))) ex)
                                                                    in
                                                                    Some
                                                                    (
                                                                    if neg
                                                                    then 
                                                                    qdiv
                                                                    base0 p5
                                                                    else 
                                                                    qmult
                                                                    base0 p5)
                                                                    | _ :: _ ->
                                                                    None))
                                                                    | None ->
                                                                    None)
                                                                    else 
                                                                    if b12
                                                                    then 
                                                                    if b13
                                                                    then 
                                                                    let neg =
                                                                    false
                                                                    in
                                                                    (
                                                                    match 
                                                                    dec_digits
                                                                    r0 Z0 O with
                                                                    | Some p3 ->
                                                                    let (
                                                                    p4, l) =
                                                                    p3
                                                                    in
                                                                    let (
                                                                    ex, n3) =
                                                                    p4
                                                                    in
                                                                    (
                                                                    match n3 with
                                                                    | O ->
                                                                    None
                                                                    | S _ ->
                                                                    (match l with
                                                                    | [] ->
                                                                    let p5 =
                                                                    inject_Z
                                                                    (Z.pow
                                                                    (Zpos (XO
                                                                    (XI (XO
                                                                    XH)))) ex)
                                                                    in
                                                                    Some
                                                                    (
                                                                    if neg
                                                                    then 
                                                                    qdiv
                                                                    base0 p5
                                                                    else 
                                                                    qmult
                                                                    base0 p5)
                                                                    | _ :: _ ->
                                                                    None))
                                                                    | None ->
                                                                    None)
                                                                    else 
                                                                    if b14
                                                                    then 
                                                                    let neg =
                                                                    false
                                                                    in
                                                                    (
                                                                    match 
                                                                    dec_digits
                                                                    r0 Z0 O with
                                                                    | Some p3 ->
                                                                    let (
                                                                    p4, l) =
                                                                    p3
                                                                    in
                                                                    let (
                                                                    ex, n3) =
                                                                    p4
                                                                    in
                                                                    (
                                                                    match n3 with
                                                                    | O ->
                                                                    None
                                                                    | S _ ->
                                                                    (match l with
                                                                    | [] ->
                                                                    let p5 =
                                                                    inject_Z
                                                                    (Z.pow
                                                                    (Zpos (XO
                                                                    (XI (XO
                                                                    XH)))) ex)
                                                                    in
                                                                    Some
                                                                    (
                                                                    if neg
                                                                    then 
                                                                    qdiv
                                                                    base0 p5
                                                                    else 
                                                                    qmult
                                                                    base0 p5)
                                                                    | _ :: _ ->
                                                                    None))
                                                                    | None ->
                                                                    None)
                                                                    else 
                                                                    let neg =
                                                                    true
                                                                    in
                                                                    (
                                                                    match 
                                                                    dec_digits
                                                                    t Z0 O with
                                                                    | Some p3 ->
                                                                    let (
                                                                    p4, l) =
                                                                    p3
                                                                    in
                                                                    let (
                                                                    ex, n3) =
                                                                    p4
                                                                    in
                                                                    (
                                                                    match n3 with
                                                                    | O ->
                                                                    None
                                                                    | S _ ->
                                                                    (match l with
                                                                    | [] ->
                                                                    let p5 =
                                                                    inject_Z
                                                                    (Z.pow
                                                                    (Zpos (XO
                                                                    (XI (XO
                                                                    XH)))) ex)
                                                                    in
                                                                    Some
                                                                    (
                                                                    if neg
                                                                    then 
                                                                    qdiv
                                                                    base0 p5
                                                                    else 
                                                                    qmult
                                                                    base0 p5)
                                                                    | _ :: _ ->
                                                                    None))
                                                                    | None ->
                                                                    None)
                                                                    else 
                                                                    let neg =
                                                                    false
                                                                    in
                                                                    (
                                                                    match 
                                                                    dec_digits
                                                                    r0 Z0 O with
                                                                    | Some p3 ->
                                                                    let (
                                                                    p4, l) =
                                                                    p3
                                                                    in
                                                                    let (
                                                                    ex, n3) =
                                                                    p4
                                                                    in
                                                                    (
                                                                    match n3 with
                                                                    | O ->
                                                                    None
                                                                    | S _ ->
                                                                    (match l with
                                                                    | [] ->
                                                                    let p5 =
                                                                    inject_Z
                                                                    (Z.pow
                                                                    (Zpos (XO
                                                                    (XI (XO
                                                                    XH)))) ex)
                                                                    in
                                                                    Some
                                                                    (
                                                                    if neg
                                                                    then 
                                                                    qdiv
                                                                    base0 p5
                                                                    else 
                                                                    qmult
                                                                    base0 p5)
                                                                    | _ :: _ ->
                                                                    None))
                                                                    | None ->
                                                                    None)
                                                                    else 
                                                                    let neg =
                                                                    false
                                                                    in
                                                                    (
                                                                    match 
                                                                    dec_digits
                                                                    r0 Z0 O with
                                                                    | Some p3 ->
                                                                    let (
                                                                    p4, l) =
                                                                    p3
                                                                    in
                                                                    let (
                                                                    ex, n3) =
                                                                    p4
                                                                    in
                                                                    (
                                                                    match n3 with
                                                                    | O ->
                                                                    None
                                                                    | S _ ->
                                                                    (match l with
                                                                    | [] ->
                                                                    let p5 =
                                                                    inject_Z
                                                                    (Z.pow
                                                                    (Zpos (XO
                                                                    (XI (XO
                                                                    XH)))) ex)
                                                                    in
                                                                    Some
                                                                    (
                                                                    if neg
                                                                    then 
                                                                    qdiv
                                                                    base0 p5
                                                                    else 
                                                                    qmult
                                                                    base0 p5)
                                                                    | _ :: _ ->
                                                                    None))
                                                                    | None ->
                                                                    None)
                                                                   else 
                                                                    let neg =
                                                                    false
                                                                    in
                                                                    (
                                                                    match 
                                                                    dec_digits
                                                                    r0 Z0 O with
                                                                    | Some p3 ->
                                                                    let (
                                                                    p4, l) =
                                                                    p3
                                                                    in
                                                                    let (
                                                                    ex, n3) =
                                                                    p4
                                                                    in
                                                                    (
                                                                    match n3 with
                                                                    | O ->
                                                                    None
                                                                    | S _ ->
                                                                    (match l with
                                                                    | [] ->
                                                                    let p5 =
                                                                    inject_Z
                                                                    (Z.pow
                                                                    (Zpos (XO
                                                                    (XI (XO
                                                                    XH)))) ex)
                                                                    in
                                                                    Some
                                                                    (
                                                                    if neg
                                                                    then 
                                                                    qdiv
                                                                    base0 p5
                                                                    else 
                                                                    qmult
                                                                    base0 p5)
                                                                    | _ :: _ ->
                                                                    None))
                                                                    | None ->
                                                                    None)
                                                         else let neg = false
                                                              in
                                                              (match 
                                                               dec_digits r0
                                                                 Z0 O with
                                                               | Some p3 ->
                                                                 let (
                                                                   p4, l) = p3
                                                                 in
                                                                 let (
                                                                   ex, n3) =
                                                                   p4
                                                                 in
                                                                 (match n3 with
                                                                  | O -> None
                                                                  | S _ ->
                                                                    (match l with
                                                                    | [] ->
                                                                    let p5 =
                                                                    inject_Z
                                                                    (Z.pow
                                                                    (Zpos (XO
                                                                    (XI (XO
                                                                    XH)))) ex)
                                                                    in
                                                                    Some
                                                                    (
                                                                    if neg
                                                                    then 
                                                                    qdiv
                                                                    base0 p5
                                                                    else 
                                                                    qmult
                                                                    base0 p5)
                                                                    | _ :: _ ->
                                                                    None))
                                                               | None -> None))
                                                         a0)
                                               else None)
                        else let p1 = ((ip, O), rest0) in
                             let n2 = O in
                             let (p2, rest2) = p1 in
                             let (mant, scale) = p2 in
                             if Nat.eqb (add n1 n2) O
                             then None
                             else let base = { qnum = mant; qden =
                                    (Coq_Pos.pow (XO (XI (XO XH)))
                                      (Coq_Pos.of_nat scale)) }
                                  in
                                  let base0 =
                                    if Nat.eqb scale O
                                    then inject_Z mant
                                    else base
                                  in
                                  (match rest2 with
                                   | [] -> Some base0
                                   | e :: r0 ->
                                     if (||) ((=) e 'e') ((=) e 'E')
                                     then (match r0 with
                                           | [] ->
                                             let neg = false in
                                             (match dec_digits r0 Z0 O with
                                              | Some p3 ->
                                                let (p4, l) = p3 in
                                                let (ex, n3) = p4 in
                                                (match n3 with
                                                 | O -> None
                                                 | S _ ->
                                                   (match l with
                                                    | [] ->
                                                      let p5 =
                                                        inject_Z
                                                          (Z.pow (Zpos (XO
                                                            (XI (XO XH)))) ex)
                                                      in
                                                      Some
                                                      (if neg
                                                       then qdiv base0 p5
                                                       else qmult base0 p5)
                                                    | _ :: _ -> None))
                                              | None -> None)
                                           | a0 :: t ->
                                             (* If this appears, you're using Ascii internals. Please don't *)
 (fun f c ->
  let n = Char.code c in
  let h i = (n land (1 lsl i)) <> 0 in
  f (h 0) (h 1) (h 2) (h 3) (h 4) (h 5) (h 6) (h 7))
                                               (fun b7 b8 b9 b10 b11 b12 b13 b14 ->
                                               if b7
                                               then if b8
                                                    then if b9
                                                         then let neg = false
                                                              in
                                                              (match 
                                                               dec_digits r0
                                                                 Z0 O with
                                                               | Some p3 ->
                                                                 let (
                                                                   p4, l) = p3
                                                                 in
                                                                 let (
                                                                   ex, n3) =
                                                                   p4
                                                                 in
                                                                 (match n3 with
                                                                  | O -> None
                                                                  | S _ ->
                                                                    (match l with
                                                                    | [] ->
                                                                    let p5 =
                                                                    inject_Z
                                                                    (Z.pow
                                                                    (Zpos (XO
                                                                    (XI (XO
                                                                    XH)))) ex)
                                                                    in
                                                                    Some
                                                                    (
                                                                    if neg
                                                                    then 
                                                                    qdiv
                                                                    base0 p5
                                                                    else 
                                                                    qmult
                                                                    base0 p5)
                                                                    | _ :: _ ->
                                                                    None))
                                                               | None -> None)
                                                         else if b10
                                                              then if b11
                                                                   then 
                                                                    let neg =
                                                                    false
                                                                    in
                                                                    (
                                                                    match 
                                                                    dec_digits
                                                                    r0 Z0 O with
                                                                    | Some p3 ->
                                                                    let (
                                                                    p4, l) =
                                                                    p3
                                                                    in
                                                                    let (
                                                                    ex, n3) =
                                                                    p4
                                                                    in
                                                                    (
                                                                    match n3 with
                                                                    | O ->
                                                                    None
                                                                    | S _ ->
                                                                    (match l with
                                                                    | [] ->
                                                                    let p5 =
                                                                    inject_Z
                                                                    (Z.pow
                                                                    (Zpos (XO
                                                                    (XI (XO
                                                                    XH)))) ex)
                                                                    in
                                                                    Some
                                                                    (
                                                                    if neg
                                                                    then 
                                                                    qdiv
                                                                    base0 p5
                                                                    else 
                                                                    qmult
                                                                    base0 p5)
                                                                    | _ :: _ ->
                                                                    None))
                                                                    | None ->
                                                                    None)
                                                                   else 
                                                                    if b12
                                                                    then 
                                                                    if b13
                                                                    then 
                                                                    let neg =
                                                                    false
                                                                    in
                                                                    (
                                                                    match 
                                                                    dec_digits
                                                                    r0 Z0 O with
                                                                    | Some p3 ->
                                                                    let (
                                                                    p4, l) =
                                                                    p3
                                                                    in
                                                                    let (
                                                                    ex, n3) =
                                                                    p4
                                                                    in
                                                                    (
                                                                    match n3 with
                                                                    | O ->
                                                                    None
                                                                    | S _ ->
                                                                    (match l with
                                                                    | [] ->
                                                                    let p5 =
                                                                    inject_Z
                                                                    (Z.pow
                                                                    (Zpos (XO
                                                                    (XI (XO
                                                                    XH)))) ex)
                                                                    in
                                                                    Some
                                                                    (
                                                                    if neg
                                                                    then 
                                                                    qdiv
                                                                    base0 p5
                                                                    else 
                                                                    qmult
                                                                    base0 p5)
                                                                    | _ :: _ ->
                                                                    None))
                                                                    | None ->
                                                                    None)
                                                                    else 
                                                                    if b14
                                                                    then 
                                                                    let neg =
                                                                    false
                                                                    in
                                                                    (
                                                                    match 
                                                                    dec_digits
                                                                    r0 Z0 O with
                                                                    | Some p3 ->
                                                                    let (
                                                                    p4, l) =
                                                                    p3
                                                                    in
                                                                    let (
                                                                    ex, n3) =
                                                                    p4
                                                                    in
                                                                    (
                                                                    match n3 with
                                                                    | O ->
                                                                    None
                                                                    | S _ ->
                                                                    (match l with
                                                                    | [] ->
                                                                    let p5 =
                                                                    inject_Z
                                                                    (Z.pow
                                                                    (Zpos (XO
                                                                    (XI (XO
                                                                    XH)))) ex)
                                                                    in
                                                                    Some
                                                                    (
                                                                    if neg
                                                                    then 
                                                                    qdiv
                                                                    base0 p5
                                                                    else 
                                                                    qmult
                                                                    base0 p5)
                                                                    | _ :: _ ->
                                                                    None))
                                                                    | None ->
                                                                    None)
                                                                    else 
                                                                    let neg =
                                                                    false
                                                                    in
                                                                    (
                                                                    match 
                                                                    dec_digits
                                                                    t Z0 O with
                                                                    | Some p3 ->
                                                                    let (
                                                                    p4, l) =
                                                                    p3
                                                                    in
                                                                    let (
                                                                    ex, n3) =
                                                                    p4
                                                                    in
                                                                    (
                                                                    match n3 with
                                                                    | O ->
                                                                    None
                                                                    | S _ ->
                                                                    (match l with
                                                                    | [] ->
                                                                    let p5 =
                                                                    inject_Z
                                                                    (Z.pow
                                                                    (Zpos (XO
                                                                    (XI (XO
                                                                    XH)))) ex)
                                                                    in
                                                                    Some
                                                                    (
                                                                    if neg
                                                                    then 
                                                                    qdiv
                                                                    base0 p5
                                                                    else 
                                                                    qmult
                                                                    base0 p5)
                                                                    | _ :: _ ->
                                                                    None))
                                                                    | None ->
                                                                    None)
                                                                    else 
                                                                    let neg =
                                                                    false
                                                                    in
                                                                    (
                                                                    match 
                                                                    dec_digits
                                                                    r0 Z0 O with
                                                                    | Some p3 ->
                                                                    let (
                                                                    p4, l) =
                                                                    p3
                                                                    in
                                                                    let (
                                                                    ex, n3) =
                                                                    p4
                                                                    in
                                                                    (
                                                                    match n3 with
                                                                    | O ->
                                                                    None
                                                                    | S _ ->
                                                                    (match l with
                                                                    | [] ->
                                                                    let p5 =
                                                                    inject_Z
                                                                    (Z.pow
                                                                    (Zpos (XO
                                                                    (XI (XO
                                                                    XH)))) ex)
                                                                    in
                                                                    Some
                                                                    (
                                                                    if neg
                                                                    then 
                                                                    qdiv
                                                                    base0 p5
                                                                    else 
                                                                    qmult
                                                                    base0 p5)
                                                                    | _ :: _ ->
                                                                    None))
                                                                    | None ->
                                                                    None)
                                                              else let neg =
                                                                    false
                                                                   in
                                                                   (match 
                                                                    dec_digits
                                                                    r0 Z0 O with
                                                                    | Some p3 ->
                                                                    let (
                                                                    p4, l) =
                                                                    p3
                                                                    in
                                                                    let (
                                                                    ex, n3) =
                                                                    p4
                                                                    in
                                                                    (
                                                                    match n3 with
                                                                    | O ->
                                                                    None
                                                                    | S _ ->
                                                                    (match l with
                                                                    | [] ->
                                                                    let p5 =
                                                                    inject_Z
                                                                    (Z.pow
                                                                    (Zpos (XO
                                                                    (XI (XO
                                                                    XH)))) ex)
                                                                    in
                                                                    Some
                                                                    (
                                                                    if neg
                                                                    then 
                                                                    qdiv
                                                                    base0 p5
                                                                    else 
                                                                    qmult
                                                                    base0 p5)
                                                                    | _ :: _ ->
                                                                    None))
                                                                    | None ->
                                                                    None)
                                                    else if b9
                                                         then if b10
                                                              then if b11
                                                                   then 
                                                                    let neg =
                                                                    false
                                                                    in
                                                                    (
                                                                    match 
                                                                    dec_digits
                                                                    r0 Z0 O with
                                                                    | Some p3 ->
                                                                    let (
                                                                    p4, l) =
                                                                    p3
                                                                    in
                                                                    let (
                                                                    ex, n3) =
                                                                    p4
                                                                    in
                                                                    (
                                                                    match n3 with
                                                                    | O ->
                                                                    None
                                                                    | S _ ->
                                                                    (match l with
                                                                    | [] ->
                                                                    let p5 =
                                                                    inject_Z
                                                                    (Z.pow
                                                                    (Zpos (XO
                                                                    (XI (XO
                                                                    XH)))) ex)
                                                                    in
                                                                    Some
                                                                    (
                                                                    if neg
                                                                    then 
                                                                    qdiv
                                                                    base0 p5
                                                                    else 
                                                                    qmult
                                                                    base0 p5)
                                                                    | _ :: _ ->
                                                                    None))
                                                                    | None ->
                                                                    None)
                                                                   else 
                                                                    if b12
                                                                    then 
                                                                    if b13
                                                                    then 
                                                                    let neg =
                                                                    false
                                                                    in
                                                                    (
                                                                    match 
                                                                    dec_digits
                                                                    r0 Z0 O with
                                                                    | Some p3 ->
                                                                    let (
                                                                    p4, l) =
                                                                    p3
                                                                    in
                                                                    let (
                                                                    ex, n3) =
                                                                    p4
                                                                    in
                                                                    (
                                                                    match n3 with
                                                                    | O ->
                                                                    None
                                                                    | S _ ->
                                                                    (match l with
                                                                    | [] ->
                                                                    let p5 =
                                                                    inject_Z
                                                                    (Z.pow
                                                                    (Zpos (XO
                                                                    (XI (XO
                                                                    XH)))) ex)
                                                                    in
                                                                    Some
                                                                    (
                                                                    if neg
                                                                    then 
                                                                    qdiv
                                                                    base0 p5
                                                                    else 
                                                                    qmult
                                                                    base0 p5)
                                                                    | _ :: _ ->
                                                                    None))
                                                                    | None ->
                                                                    None)
                                                                    else 
                                                                    if b14
                                                                    then 
                                                                    let neg =
                                                                    false
                                                                    in
                                                                    (
                                                                    match 
                                                                    dec_digits
                                                                    r0 Z0 O with
                                                                    | Some p3 ->
                                                                    let (
                                                                    p4, l) =
                                                                    p3
                                                                    in
                                                                    let (
                                                                    ex, n3) =
                                                                    p4
                                                                    in
                                                                    (
                                                                    match n3 with
                                                                    | O ->
                                                                    None
                                                                    | S _ ->
                                                                    (match l with
                                                                    | [] ->
                                                                    let p5 =
                                                                    inject_Z
                                                                    (Z.pow
                                                                    (Zpos (XO
                                                                    (XI (XO
                                                                    XH)))) ex)
                                                                    in
                                                                    Some
                                                                    (
                                                                    if neg
                                                                    then 
                                                                    qdiv
                                                                    base0 p5
                                                                    else 
                                                                    qmult
                                                                    base0 p5)
                                                                    | _ :: _ ->
                                                                    None))
                                                                    | None ->
                                                                    None)
                                                                    else 
                                                                    let neg =
                                                                    true
                                                                    in
                                                                    (
                                                                    match 
                                                                    dec_digits
                                                                    t Z0 O with
                                                                    | Some p3 ->
                                                                    let (
                                                                    p4, l) =
                                                                    p3
                                                                    in
                                                                    let (
                                                                    ex, n3) =
                                                                    p4
                                                                    in
                                                                    (
                                                                    match n3 with
                                                                    | O ->
                                                                    None
                                                                    | S _ ->
                                                                    (match l with
                                                                    | [] ->
                                                                    let p5 =
                                                                    inject_Z
                                                                    (Z.pow
                                                                    (Zpos (XO
                                                                    (XI (XO
                                                                    XH)))) ex)
                                                                    in
                                                                    Some
                                                                    (
                                                                    if neg
                                                                    then 
                                                                    qdiv
                                                                    base0 p5
                                                                    else 
                                                                    qmult
                                                                    base0 p5)
                                                                    | _ :: _ ->
                                                                    None))
                                                                    | None ->
                                                                    None)
                                                                    else 
                                                                    let neg =
                                                                    false
                                                                    in
                                                                    (
                                                                    match 
                                                                    dec_digits
                                                                    r0 Z0 O with
                                                                    | Some p3 ->
                                                                    let (
                                                                    p4, l) =
                                                                    p3
                                                                    in
                                                                    let (
                                                                    ex, n3) =
                                                                    p4
                                                                    in
                                                                    (
                                                                    match n3 with
                                                                    | O ->
                                                                    None
                                                                    | S _ ->
                                                                    (match l with
                                                                    | [] ->
                                                                    let p5 =
                                                                    inject_Z
                                                                    (Z.pow
                                                                    (Zpos (XO
                                                                    (XI (XO
                                                                    XH)))) ex)
                                                                    in
                                                                    Some
                                                                    (
                                                                    if neg
                                                                    then 
                                                                    qdiv
                                                                    base0 p5
                                                                    else 
                                                                    qmult
                                                                    base0 p5)
                                                                    | _ :: _ ->
                                                                    None))
                                                                    | None ->
                                                                    None)
                                                              else let neg =
                                                                    false
                                                                   in
                                                                   (match 
                                                                    dec_digits
                                                                    r0 Z0 O with
                                                                    | Some p3 ->
                                                                    let (
                                                                    p4, l) =
                                                                    p3
                                                                    in
                                                                    let (
                                                                    ex, n3) =
                                                                    p4
                                                                    in
                                                                    (
                                                                    match n3 with
                                                                    | O ->
                                                                    None
                                                                    | S _ ->
                                                                    (match l with
                                                                    | [] ->
                                                                    let p5 =
                                                                    inject_Z
                                                                    (Z.pow
                                                                    (Zpos (XO
                                                                    (XI (XO
                                                                    XH)))) ex)
                                                                    in
                                                                    Some
                                                                    (
                                                                    if neg
                                                                    then 
                                                                    qdiv
                                                                    base0 p5
                                                                    else 
                                                                    qmult
                                                                    base0 p5)
                                                                    | _ :: _ ->
                                                                    None))
                                                                    | None ->
                                                                    None)
                                                         else let neg = false
                                                              in
                                                              (match 
                                                               dec_digits r0
                                                                 Z0 O with
                                                               | Some p3 ->
                                                                 let (
                                                                   p4, l) = p3
                                                                 in
                                                                 let (
                                                                   ex, n3) =
                                                                   p4
                                                                 in
                                                                 (match n3 with
                                                                  | O -> None
                                                                  | S _ ->
                                                                    (match l with
                                                                    | [] ->
                                                                    let p5 =
                                                                    inject_Z
                                                                    (Z.pow
                                                                    (Zpos (XO
                                                                    (XI (XO
                                                                    XH)))) ex)
                                                                    in
                                                                    Some
                                                                    (
                                                                    if neg
                                                                    then 
                                                                    qdiv
                                                                    base0 p5
                                                                    else 
                                                                    qmult
                                                                    base0 p5)
                                                                    | _ :: _ ->
                                                                    None))
                                                               | None -> None)
                                               else let neg = false in
                                                    (match dec_digits r0 Z0 O with
                                                     | Some p3 ->
                                                       let (p4, l) = p3 in
                                                       let (ex, n3) = p4 in
                                                       (match n3 with
                                                        | O -> None
                                                        | S _ ->
                                                          (match l with
                                                           | [] ->
                                                             let p5 =
                                                               inject_Z
                                                                 (Z.pow (Zpos
                                                                   (XO (XI
                                                                   (XO XH))))
                                                                   ex)
                                                             in
                                                             Some
                                                             (if neg
                                                              then qdiv base0
                                                                    p5
                                                              else qmult
                                                                    base0 p5)
                                                           | _ :: _ -> None))
                                                     | None -> None))
                                               a0)
                                     else None)
                   else let p1 = ((ip, O), rest0) in
                        let n2 = O in
                        let (p2, rest2) = p1 in
                        let (mant, scale) = p2 in
                        if Nat.eqb (add n1 n2) O
                        then None
                        else let base = { qnum = mant; qden =
                               (Coq_Pos.pow (XO (XI (XO XH)))
                                 (Coq_Pos.of_nat scale)) }
                             in
                             let base0 =
                               if Nat.eqb scale O then inject_Z mant else base
                             in
                             (match rest2 with
                              | [] -> Some base0
                              | e :: r0 ->
                                if (||) ((=) e 'e') ((=) e 'E')
                                then (match r0 with
                                      | [] ->
                                        let neg = false in
                                        (match dec_digits r0 Z0 O with
                                         | Some p3 ->
                                           let (p4, l) = p3 in
                                           let (ex, n3) = p4 in
                                           (match n3 with
                                            | O -> None
                                            | S _ ->
                                              (match l with
                                               | [] ->
                                                 let p5 =
                                                   inject_Z
                                                     (Z.pow (Zpos (XO (XI (XO
                                                       XH)))) ex)
                                                 in
                                                 Some
                                                 (if neg
                                                  then qdiv base0 p5
                                                  else qmult base0 p5)
                                               | _ :: _ -> None))
                                         | None -> None)
                                      | a0 :: t ->
                                        (* If this appears, you're using Ascii internals. Please don't *)
 (fun f c ->
  let n = Char.code c in
  let h i = (n land (1 lsl i)) <> 0 in
  f (h 0) (h 1) (h 2) (h 3) (h 4) (h 5) (h 6) (h 7))
                                          (fun b7 b8 b9 b10 b11 b12 b13 b14 ->
                                          if b7
                                          then if b8
                                               then if b9
                                                    then let neg = false in
                                                         (match dec_digits r0
                                                                  Z0 O with
                                                          | Some p3 ->
                                                            let (p4, l) = p3
                                                            in
                                                            let (ex, n3) = p4
                                                            in
                                                            (match n3 with
                                                             | O -> None
                                                             | S _ ->
                                                               (match l with
                                                                | [] ->
                                                                  let p5 =
                                                                    inject_Z
                                                                    (Z.pow
                                                                    (Zpos (XO
                                                                    (XI (XO
                                                                    XH)))) ex)
                                                                  in
                                                                  Some
                                                                  (if neg
                                                                   then 
                                                                    qdiv
                                                                    base0 p5
                                                                   else 
                                                                    qmult
                                                                    base0 p5)
                                                                | _ :: _ ->
                                                                  None))
                                                          | None -> None)
                                                    else if b10
                                                         then if b11
                                                              then let neg =
                                                                    false
                                                                   in
                                                                   (match 
                                                                    dec_digits
                                                                    r0 Z0 O with
                                                                    | Some p3 ->
                                                                    let (
                                                                    p4, l) =
                                                                    p3
                                                                    in
                                                                    let (
                                                                    ex, n3) =
                                                                    p4
                                                                    in
                                                                    (
                                                                    match n3 with
                                                                    | O ->
                                                                    None
                                                                    | S _ ->
                                                                    (match l with
                                                                    | [] ->
                                                                    let p5 =
                                                                    inject_Z
                                                                    (Z.pow
                                                                    (Zpos (XO
                                                                    (XI (XO
                                                                    XH)))) ex)
                                                                    in
                                                                    Some
                                                                    (
                                                                    if neg
                                                                    then 
                                                                    qdiv
                                                                    base0 p5
                                                                    else 
                                                                    qmult
                                                                    base0 p5)
                                                                    | _ :: _ ->
                                                                    None))
                                                                    | None ->
                                                                    None)
                                                              else if b12
                                                                   then 
                                                                    if b13
                                                                    then 
                                                                    let neg =
                                                                    false
                                                                    in
                                                                    (
                                                                    match 
                                                                    dec_digits
                                                                    r0 Z0 O with
                                                                    | Some p3 ->
                                                                    let (
                                                                    p4, l) =
                                                                    p3
                                                                    in
                                                                    let (
                                                                    ex, n3) =
                                                                    p4
                                                                    in
                                                                    (
                                                                    match n3 with
                                                                    | O ->
                                                                    None
                                                                    | S _ ->
                                                                    (match l with
                                                                    | [] ->
                                                                    let p5 =
                                                                    inject_Z
                                                                    (Z.pow
                                                                    (Zpos (XO
                                                                    (XI (XO
                                                                    XH)))) ex)
                                                                    in
                                                                    Some
                                                                    (
                                                                    if neg
                                                                    then 
                                                                    qdiv
                                                                    base0 p5
                                                                    else 
                                                                    qmult
                                                                    base0 p5)
                                                                    | _ :: _ ->
                                                                    None))
                                                                    | None ->
                                                                    None)
                                                                    else 
                                                                    if b14
                                                                    then 
                                                                    let neg =
                                                                    false
                                                                    in
                                                                    (
                                                                    match 
                                                                    dec_digits
                                                                    r0 Z0 O with
                                                                    | Some p3 ->
                                                                    let (
                                                                    p4, l) =
                                                                    p3
                                                                    in
                                                                    let (
                                                                    ex, n3) =
                                                                    p4
                                                                    in
                                                                    (
                                                                    match n3 with
                                                                    | O ->
                                                                    None
                                                                    | S _ ->
                                                                    (match l with
                                                                    | [] ->
                                                                    let p5 =
                                                                    inject_Z
                                                                    (Z.pow
                                                                    (Zpos (XO
                                                                    (XI (XO
                                                                    XH)))) ex)
                                                                    in
                                                                    Some
                                                                    (
                                                                    if neg
                                                                    then 
                                                                    qdiv
                                                                    base0 p5
                                                                    else 
                                                                    qmult
                                                                    base0 p5)
                                                                    | _ :: _ ->
                                                                    None))
                                                                    | None ->
                                                                    None)
                                                                    else 
                                                                    let neg =
                                                                    false
                                                                    in
                                                                    (
                                                                    match 
                                                                    dec_digits
                                                                    t Z0 O with
                                                                    | Some p3 ->
                                                                    let (
                                                                    p4, l) =
                                                                    p3
                                                                    in
                                                                    let (
                                                                    ex, n3) =
                                                                    p4
                                                                    in
                                                                    (
                                                                    match n3 with
                                                                    | O ->
                                                                    None
                                                                    | S _ ->
                                                                    (match l with
                                                                    | [] ->
                                                                    let p5 =
                                                                    inject_Z
                                                                    (Z.pow
                                                                    (Zpos (XO
                                                                    (XI (XO
                                                                    XH)))) ex)
                                                                    in
                                                                    Some
                                                                    (
                                                                    if neg
                                                                    then 
                                                                    qdiv
                                                                    base0 p5
                                                                    else 
                                                                    qmult
                                                                    base0 p5)
                                                                    | _ :: _ ->
                                                                    None))
                                                                    | None ->
                                                                    None)
                                                                   else 
                                                                    let neg =
                                                                    false
                                                                    in
                                                                    (
                                                                    match 
                                                                    dec_digits
                                                                    r0 Z0 O with
                                                                    | Some p3 ->
                                                                    let (
                                                                    p4, l) =
                                                                    p3
                                                                    in
                                                                    let (
                                                                    ex, n3) =
                                                                    p4
                                                                    in
                                                                    (
                                                                    match n3 with
                                                                    | O ->
                                                                    None
                                                                    | S _ ->
                                                                    (match l with
                                                                    | [] ->
                                                                    let p5 =
                                                                    inject_Z
                                                                    (Z.pow
                                                                    (Zpos (XO
                                                                    (XI (XO
                                                                    XH)))) ex)
                                                                    in
                                                                    Some
                                                                    (
                                                                    if neg
                                                                    then 
                                                                    qdiv
                                                                    base0 p5
                                                                    else 
                                                                    qmult
                                                                    base0 p5)
                                                                    | _ :: _ ->
                                                                    None))
                                                                    | None ->
                                                                    None)
                                                         else let neg = false
                                                              in
                                                              (match 
                                                               dec_digits r0
                                                                 Z0 O with
                                                               | Some p3 ->
                                                                 let (
                                                                   p4, l) = p3
                                                                 in
                                                                 let (
                                                                   ex, n3) =
                                                                   p4
                                                                 in
                                                                 (match n3 with
                                                                  | O -> None
                                                                  | S _ ->
                                                                    (match l with
                                                                    | [] ->
                                                                    let p5 =
                                                                    inject_Z
                                                                    (Z.pow
                                                                    (Zpos (XO
                                                                    (XI (XO
                                                                    XH)))) ex)
                                                                    in
                                                                    Some
                                                                    (
                                                                    if neg
                                                                    then 
                                                                    qdiv
                                                                    base0 p5
                                                                    else 
                                                                    qmult
                                                                    base0 p5)
                                                                    | _ :: _ ->
                                                                    None))
                                                               | None -> None)
                                               else if b9
                                                    then if b10
                                                         then if b11
                                                              then let neg =
                                                                    false
                                                                   in
                                                                   (match 
                                                                    dec_digits
                                                                    r0 Z0 O with
                                                                    | Some p3 ->
                                                                    let (
                                                                    p4, l) =
                                                                    p3
                                                                    in
                                                                    let (
                                                                    ex, n3) =
                                                                    p4
                                                                    in
                                                                    (
                                                                    match n3 with
                                                                    | O ->
                                                                    None
                                                                    | S _ ->
                                                                    (match l with
                                                                    | [] ->
                                                                    let p5 =
                                                                    inject_Z
                                                                    (Z.pow
                                                                    (Zpos (XO
                                                                    (XI (XO
                                                                    XH)))) ex)
                                                                    in
                                                                    Some
                                                                    (
                                                                    if neg
                                                                    then 
                                                                    qdiv
                                                                    base0 p5
                                                                    else 
                                                                    qmult
                                                                    base0 p5)
                                                                    | _ :: _ ->
                                                                    None))
                                                                    | None ->
                                                                    None)
                                                              else if b12
                                                                   then 
                                                                    if b13
                                                                    then 
                                                                    let neg =
                                                                    false
                                                                    in
                                                                    (
                                                                    match 
                                                                    dec_digits
                                                                    r0 Z0 O with
                                                                    | Some p3 ->
                                                                    let (
                                                                    p4, l) =
                                                                    p3
                                                                    in
                                                                    let (
                                                                    ex, n3) =
                                                                    p4
                                                                    in
                                                                    (
                                                                    match n3 with
                                                                    | O ->
                                                                    None
                                                                    | S _ ->
                                                                    (match l with
                                                                    | [] ->
                                                                    let p5 =
                                                                    inject_Z
                                                                    (Z.pow
                                                                    (Zpos (XO
                                                                    (XI (XO
                                                                    XH)))) ex)
                                                                    in
                                                                    Some
                                                                    (
                                                                    if neg
                                                                    then 
                                                                    qdiv
                                                                    base0 p5
                                                                    else 
                                                                    qmult
                                                                    base0 p5)
                                                                    | _ :: _ ->
                                                                    None))
                                                                    | None ->
                                                                    None)
                                                                    else 
                                                                    if b14
                                                                    then 
                                                                    let neg =
                                                                    false
                                                                    in
                                                                    (
                                                                    match 
                                                                    dec_digits
                                                                    r0 Z0 O with
                                                                    | Some p3 ->
                                                                    let (
                                                                    p4, l) =
                                                                    p3
                                                                    in
                                                                    let (
                                                                    ex, n3) =
                                                                    p4
                                                                    in
                                                                    (
                                                                    match n3 with
                                                                    | O ->
                                                                    None
                                                                    | S _ ->
                                                                    (match l with
                                                                    | [] ->
                                                                    let p5 =
                                                                    inject_Z
                                                                    (Z.pow
                                                                    (Zpos (XO
                                                                    (XI (XO
                                                                    XH)))) ex)
                                                                    in
                                                                    Some
                                                                    (
                                                                    if neg
                                                                    then 
                                                                    qdiv
                                                                    base0 p5
                                                                    else 
                                                                    qmult
                                                                    base0 p5)
                                                                    | _ :: _ ->
                                                                    None))
                                                                    | None ->
                                                                    None)
                                                                    else 
                                                                    let neg =
                                                                    true
                                                                    in
                                                                    (
                                                                    match 
                                                                    dec_digits
                                                                    t Z0 O with
                                                                    | Some p3 ->
                                                                    let (
                                                                    p4, l) =
                                                                    p3
                                                                    in
                                                                    let (
                                                                    ex, n3) =
                                                                    p4
                                                                    in
                                                                    (
                                                                    match n3 with
                                                                    | O ->
                                                                    None
                                                                    | S _ ->
                                                                    (match l with
                                                                    | [] ->
                                                                    let p5 =
                                                                    inject_Z
                                                                    (Z.pow
                                                                    (Zpos (XO
                                                                    (XI (XO
                                                                    XH)))) ex)
                                                                    in
                                                                    Some
                                                                    (
                                                                    if neg
                                                                    then 
                                                                    qdiv
                                                                    base0 p5
                                                                    else 
                                                                    qmult
                                                                    base0 p5)
                                                                    | _ :: _ ->
                                                                    None))
                                                                    | None ->
                                                                    None)
                                                                   else 
                                                                    let neg =
                                                                    false
                                                                    in
                                                                    (
                                                                    match 
                                                                    dec_digits
                                                                    r0 Z0 O with
                                                                    | Some p3 ->
                                                                    let (
                                                                    p4, l) =
                                                                    p3
                                                                    in
                                                                    let (
                                                                    ex, n3) =
                                                                    p4
                                                                    in
                                                                    (
                                                                    match n3 with
                                                                    | O ->
                                                                    None
                                                                    | S _ ->
                                                                    (match l with
                                                                    | [] ->
                                                                    let p5 =
                                                                    inject_Z
                                                                    (Z.pow
                                                                    (Zpos (XO
                                                                    (XI (XO
                                                                    XH)))) ex)
                                                                    in
                                                                    Some
                                                                    (
                                                                    if neg
                                                                    then 
                                                                    qdiv
                                                                    base0 p5
                                                                    else 
                                                                    qmult
                                                                    base0 p5)
                                                                    | _ :: _ ->
                                                                    None))
                                                                    | None ->
                                                                    None)
                                                         else let neg = false
                                                              in
                                                              (match 
                                                               dec_digits r0
                                                                 Z0 O with
                                                               | Some p3 ->
                                                                 let (
                                                                   p4, l) = p3
                                                                 in
                                                                 let (
                                                                   ex, n3) =
                                                                   p4
                                                                 in
                                                                 (match n3 with
                                                                  | O -> None
                                                                  | S _ ->
                                                                    (match l with
                                                                    | [] ->
                                                                    let p5 =
                                                                    inject_Z
                                                                    (Z.pow
                                                                    (Zpos (XO
                                                                    (XI (XO
                                                                    XH)))) ex)
                                                                    in
                                                                    Some
                                                                    (
                                                                    if neg
                                                                    then 
                                                                    qdiv
                                                                    base0 p5
                                                                    else 
                                                                    qmult
                                                                    base0 p5)
                                                                    | _ :: _ ->
                                                                    None))
                                                               | None -> None)
                                                    else let neg = false in
                                                         (match dec_digits r0
                                                                  Z0 O with
                                                          | Some p3 ->
                                                            let (p4, l) = p3
                                                            in
                                                            let (ex, n3) = p4
                                                            in
                                                            (match n3 with
                                                             | O -> None
                                                             | S _ ->
                                                               (match l with
                                                                | [] ->
                                                                  let p5 =
                                                                    inject_Z
                                                                    (Z.pow
                                                                    (Zpos (XO
                                                                    (XI (XO
                                                                    XH)))) ex)
                                                                  in
                                                                  Some
                                                                  (if neg
                                                                   then 
                                                                    qdiv
                                                                    base0 p5
                                                                   else 
                                                                    qmult
                                                                    base0 p5)
                                                                | _ :: _ ->
                                                                  None))
                                                          | None -> None)
                                          else let neg = false in
                                               (match dec_digits r0 Z0 O with
                                                | Some p3 ->
                                                  let (p4, l) = p3 in
                                                  let (ex, n3) = p4 in
                                                  (match n3 with
                                                   | O -> None
                                                   | S _ ->
                                                     (match l with
                                                      | [] ->
                                                        let p5 =
                                                          inject_Z
                                                            (Z.pow (Zpos (XO
                                                              (XI (XO XH))))
                                                              ex)
                                                        in
                                                        Some
                                                        (if neg
                                                         then qdiv base0 p5
                                                         else qmult base0 p5)
                                                      | _ :: _ -> None))
                                                | None -> None))
                                          a0)
                                else None)
              else let p1 = ((ip, O), rest0) in
                   let n2 = O in
                   let (p2, rest2) = p1 in
                   let (mant, scale) = p2 in
                   if Nat.eqb (add n1 n2) O
                   then None
                   else let base = { qnum = mant; qden =
                          (Coq_Pos.pow (XO (XI (XO XH)))
                            (Coq_Pos.of_nat scale)) }
                        in
                        let base0 =
                          if Nat.eqb scale O then inject_Z mant else base
                        in
                        (match rest2 with
                         | [] -> Some base0
                         | e :: r0 ->
                           if (||) ((=) e 'e') ((=) e 'E')
                           then (match r0 with
                                 | [] ->
                                   let neg = false in
                                   (match dec_digits r0 Z0 O with
                                    | Some p3 ->
                                      let (p4, l) = p3 in
                                      let (ex, n3) = p4 in
                                      (match n3 with
                                       | O -> None
                                       | S _ ->
                                         (match l with
                                          | [] ->
                                            let p5 =
                                              inject_Z
                                                (Z.pow (Zpos (XO (XI (XO
                                                  XH)))) ex)
                                            in
                                            Some
                                            (if neg
                                             then qdiv base0 p5
                                             else qmult base0 p5)
                                          | _ :: _ -> None))
                                    | None -> None)
                                 | a0 :: t ->
                                   (* If this appears, you're using Ascii internals. Please don't *)
 (fun f c ->
  let n = Char.code c in
  let h i = (n land (1 lsl i)) <> 0 in
  f (h 0) (h 1) (h 2) (h 3) (h 4) (h 5) (h 6) (h 7))
                                     (fun b7 b8 b9 b10 b11 b12 b13 b14 ->
                                     if b7
                                     then if b8
                                          then if b9
                                               then let neg = false in
                                                    (match dec_digits r0 Z0 O with
                                                     | Some p3 ->
                                                       let (p4, l) = p3 in
                                                       let (ex, n3) = p4 in
                                                       (match n3 with
                                                        | O -> None
                                                        | S _ ->
                                                          (match l with
                                                           | [] ->
                                                             let p5 =
                                                               inject_Z
                                                                 (Z.pow (Zpos
                                                                   (XO (XI
                                                                   (XO XH))))
                                                                   ex)
                                                             in
                                                             Some
                                                             (if neg
                                                              then qdiv base0
                                                                    p5
                                                              else qmult
                                                                    base0 p5)
                                                           | _ :: _ -> None))
                                                     | None -> None)
                                               else if b10
                                                    then if b11
                                                         then let neg = false
                                                              in
                                                              (match 
                                                               dec_digits r0
                                                                 Z0 O with
                                                               | Some p3 ->
                                                                 let (
                                                                   p4, l) = p3
                                                                 in
                                                                 let (
                                                                   ex, n3) =
                                                                   p4
                                                                 in
                                                                 (match n3 with
                                                                  | O -> None
                                                                  | S _ ->
                                                                    (match l with
                                                                    | [] ->
                                                                    let p5 =
                                                                    inject_Z
                                                                    (Z.pow
                                                                    (Zpos (XO
                                                                    (XI (XO
                                                                    XH)))) ex)
                                                                    in
                                                                    Some
                                                                    (
                                                                    if neg
                                                                    then 
                                                                    qdiv
                                                                    base0 p5
                                                                    else 
                                                                    qmult
                                                                    base0 p5)
                                                                    | _ :: _ ->
                                                                    None))
                                                               | None -> None)
                                                         else if b12
                                                              then if b13
                                                                   then 
                                                                    let neg =
                                                                    false
                                                                    in
                                                                    (
                                                                    match 
                                                                    dec_digits
                                                                    r0 Z0 O with
                                                                    | Some p3 ->
                                                                    let (
                                                                    p4, l) =
                                                                    p3
                                                                    in
                                                                    let (
                                                                    ex, n3) =
                                                                    p4
                                                                    in
                                                                    (
                                                                    match n3 with
                                                                    | O ->
                                                                    None
                                                                    | S _ ->
                                                                    (match l with
                                                                    | [] ->
                                                                    let p5 =
                                                                    inject_Z
                                                                    (Z.pow
                                                                    (Zpos (XO
                                                                    (XI (XO
                                                                    XH)))) ex)
                                                                    in
                                                                    Some
                                                                    (
                                                                    if neg
                                                                    then 
                                                                    qdiv
                                                                    base0 p5
                                                                    else 
                                                                    qmult
                                                                    base0 p5)
                                                                    | _ :: _ ->
                                                                    None))
                                                                    | None ->
                                                                    None)
                                                                   else 
                                                                    if b14
                                                                    then 
                                                                    let neg =
                                                                    false
                                                                    in
                                                                    (
                                                                    match 
                                                                    dec_digits
                                                                    r0 Z0 O with
                                                                    | Some p3 ->
                                                                    let (
                                                                    p4, l) =
                                                                    p3
                                                                    in
                                                                    let (
                                                                    ex, n3) =
                                                                    p4
                                                                    in
                                                                    (
                                                                    match n3 with
                                                                    | O ->
                                                                    None
                                                                    | S _ ->
                                                                    (match l with
                                                                    | [] ->
                                                                    let p5 =
                                                                    inject_Z
                                                                    (Z.pow
                                                                    (Zpos (XO
                                                                    (XI (XO
                                                                    XH)))) ex)
                                                                    in
                                                                    Some
                                                                    (
                                                                    if neg
                                                                    then 
                                                                    qdiv
                                                                    base0 p5
                                                                    else 
                                                                    qmult
                                                                    base0 p5)
                                                                    | _ :: _ ->
                                                                    None))
                                                                    | None ->
                                                                    None)
                                                                    else 
                                                                    let neg =
                                                                    false
                                                                    in
                                                                    (
                                                                    match 
                                                                    dec_digits
                                                                    t Z0 O with
                                                                    | Some p3 ->
                                                                    let (
                                                                    p4, l) =
                                                                    p3
                                                                    in
                                                                    let (
                                                                    ex, n3) =
                                                                    p4
                                                                    in
                                                                    (
                                                                    match n3 with
                                                                    | O ->
                                                                    None
                                                                    | S _ ->
                                                                    (match l with
                                                                    | [] ->
                                                                    let p5 =
                                                                    inject_Z
                                                                    (Z.pow
                                                                    (Zpos (XO
                                                                    (XI (XO
                                                                    XH)))) ex)
                                                                    in
                                                                    Some
                                                                    (
                                                                    if neg
                                                                    then 
                                                                    qdiv
                                                                    base0 p5
                                                                    else 
                                                                    qmult
                                                                    base0 p5)
                                                                    | _ :: _ ->
                                                                    None))
                                                                    | None ->
                                                                    None)
                                                              else let neg =
                                                                    false
                                                                   in
                                                                   (match 
                                                                    dec_digits
                                                                    r0 Z0 O with
                                                                    | Some p3 ->
                                                                    let (
                                                                    p4, l) =
                                                                    p3
                                                                    in
                                                                    let (
                                                                    ex, n3) =
                                                                    p4
                                                                    in
                                                                    (
                                                                    match n3 with
                                                                    | O ->
                                                                    None
                                                                    | S _ ->
                                                                    (match l with
                                                                    | [] ->
                                                                    let p5 =
                                                                    inject_Z
                                                                    (Z.pow
                                                                    (Zpos (XO
                                                                    (XI (XO
                                                                    XH)))) ex)
                                                                    in
                                                                    Some
                                                                    (
                                                                    if neg
                                                                    then 
                                                                    qdiv
                                                                    base0 p5
                                                                    else 
                                                                    qmult
                                                                    base0 p5)
                                                                    | _ :: _ ->
                                                                    None))
                                                                    | None ->
                                                                    None)
                                                    else let neg = false in
                                                         (match dec_digits r0
                                                                  Z0 O with
                                                          | Some p3 ->
                                                            let (p4, l) = p3
                                                            in
                                                            let (ex, n3) = p4
                                                            in
                                                            (match n3 with
                                                             | O -> None
                                                             | S _ ->
                                                               (match l with
                                                                | [] ->
                                                                  let p5 =
                                                                    inject_Z
                                                                    (Z.pow
                                                                    (Zpos (XO
                                                                    (XI (XO
                                                                    XH)))) ex)
                                                                  in
                                                                  Some
                                                                  (if neg
                                                                   then 
                                                                    qdiv
                                                                    base0 p5
                                                                   else 
                                                                    qmult
                                                                    base0 p5)
                                                                | _ :: _ ->
                                                                  None))
                                                          | None -> None)
                                          else if b9
                                               then if b10
                                                    then if b11
                                                         then let neg = false
                                                              in
                                                              (match 
                                                               dec_digits r0
                                                                 Z0 O with
                                                               | Some p3 ->
                                                                 let (
                                                                   p4, l) = p3
                                                                 in
                                                                 let (
                                                                   ex, n3) =
                                                                   p4
                                                                 in
                                                                 (match n3 with
                                                                  | O -> None
                                                                  | S _ ->
                                                                    (match l with
                                                                    | [] ->
                                                                    let p5 =
                                                                    inject_Z
                                                                    (Z.pow
                                                                    (Zpos (XO
                                                                    (XI (XO
                                                                    XH)))) ex)
                                                                    in
                                                                    Some
                                                                    (
                                                                    if neg
                                                                    then 
                                                                    qdiv
                                                                    base0 p5
                                                                    else 
                                                                    qmult
                                                                    base0 p5)
                                                                    | _ :: _ ->
                                                                    None))
                                                               | None -> None)
                                                         else if b12
                                                              then if b13
                                                                   then 
                                                                    let neg =
                                                                    false
                                                                    in
                                                                    (
                                                                    match 
                                                                    dec_digits
                                                                    r0 Z0 O with
                                                                    | Some p3 ->
                                                                    let (
                                                                    p4, l) =
                                                                    p3
                                                                    in
                                                                    let (
                                                                    ex, n3) =
                                                                    p4
                                                                    in
                                                                    (
                                                                    match n3 with
                                                                    | O ->
                                                                    None
                                                                    | S _ ->
                                                                    (match l with
                                                                    | [] ->
                                                                    let p5 =
                                                                    inject_Z
                                                                    (Z.pow
                                                                    (Zpos (XO
                                                                    (XI (XO
                                                                    XH)))) ex)
                                                                    in
                                                                    Some
                                                                    (
                                                                    if neg
                                                                    then 
                                                                    qdiv
                                                                    base0 p5
                                                                    else 
                                                                    qmult
                                                                    base0 p5)
                                                                    | _ :: _ ->
                                                                    None))
                                                                    | None ->
                                                                    None)
                                                                   else 
                                                                    if b14
                                                                    then 
                                                                    let neg =
                                                                    false
                                                                    in
                                                                    (
                                                                    match 
                                                                    dec_digits
                                                                    r0 Z0 O with
                                                                    | Some p3 ->
                                                                    let (
                                                                    p4, l) =
                                                                    p3
                                                                    in
                                                                    let (
                                                                    ex, n3) =
                                                                    p4
                                                                    in
                                                                    (
                                                                    match n3 with
                                                                    | O ->
                                                                    None
                                                                    | S _ ->
                                                                    (match l with
                                                                    | [] ->
                                                                    let p5 =
                                                                    inject_Z
                                                                    (Z.pow
                                                                    (Zpos (XO
                                                                    (XI (XO
                                                                    XH)))) ex)
                                                                    in
                                                                    Some
                                                                    (
                                                                    if neg
                                                                    then 
                                                                    qdiv
                                                                    base0 p5
                                                                    else 
                                                                    qmult
                                                                    base0 p5)
                                                                    | _ :: _ ->
                                                                    None))
                                                                    | None ->
                                                                    None)
                                                                    else 
                                                                    let neg =
                                                                    true
                                                                    in
                                                                    (
                                                                    match 
                                                                    dec_digits
                                                                    t Z0 O with
                                                                    | Some p3 ->
                                                                    let (
                                                                    p4, l) =
                                                                    p3
                                                                    in
                                                                    let (
                                                                    ex, n3) =
                                                                    p4
                                                                    in
                                                                    (
                                                                    match n3 with
                                                                    | O ->
                                                                    None
                                                                    | S _ ->
                                                                    (match l with
                                                                    | [] ->
                                                                    let p5 =
                                                                    inject_Z
                                                                    (Z.pow
                                                                    (Zpos (XO
                                                                    (XI (XO
                                                                    XH)))) ex)
                                                                    in
                                                                    Some
                                                                    (
                                                                    if neg
                                                                    then 
                                                                    qdiv
                                                                    base0 p5
                                                                    else 
                                                                    qmult
                                                                    base0 p5)
                                                                    | _ :: _ ->
                                                                    None))
                                                                    | None ->
                                                                    None)
                                                              else let neg =
                                                                    false
                                                                   in
                                                                   (match 
                                                                    dec_digits
                                                                    r0 Z0 O with
                                                                    | Some p3 ->
                                                                    let (
                                                                    p4, l) =
                                                                    p3
                                                                    in
                                                                    let (
                                                                    ex, n3) =
                                                                    p4
                                                                    in
                                                                    (
                                                                    match n3 with
                                                                    | O ->
                                                                    None
                                                                    | S _ ->
                                                                    (match l with
                                                                    | [] ->
                                                                    let p5 =
                                                                    inject_Z
                                                                    (Z.pow
                                                                    (Zpos (XO
                                                                    (XI (XO
                                                                    XH)))) ex)
                                                                    in
                                                                    Some
                                                                    (
                                                                    if neg
                                                                    then 
                                                                    qdiv
                                                                    base0 p5
                                                                    else 
                                                                    qmult
                                                                    base0 p5)
                                                                    | _ :: _ ->
                                                                    None))
                                                                    | None ->
                                                                    None)
                                                    else let neg = false in
                                                         (match dec_digits r0
                                                                  Z0 O with
                                                          | Some p3 ->
                                                            let (p4, l) = p3
                                                            in
                                                            let (ex, n3) = p4
                                                            in
                                                            (match n3 with
                                                             | O -> None
                                                             | S _ ->
                                                               (match l with
                                                                | [] ->
                                                                  let p5 =
                                                                    inject_Z
                                                                    (Z.pow
                                                                    (Zpos (XO
                                                                    (XI (XO
                                                                    XH)))) ex)
                                                                  in
                                                                  Some
                                                                  (if neg
                                                                   then 
                                                                    qdiv
                                                                    base0 p5
                                                                   else 
                                                                    qmult
                                                                    base0 p5)
                                                                | _ :: _ ->
                                                                  None))
                                                          | None -> None)
                                               else let neg = false in
                                                    (match dec_digits r0 Z0 O with
                                                     | Some p3 ->
                                                       let (p4, l) = p3 in
                                                       let (ex, n3) = p4 in
                                                       (match n3 with
                                                        | O -> None
                                                        | S _ ->
                                                          (match l with
                                                           | [] ->
                                                             let p5 =
                                                               inject_Z
                                                                 (Z.pow (Zpos
                                                                   (XO (XI
                                                                   (XO XH))))
                                                                   ex)
                                                             in
                                                             Some
                                                             (if neg
                                                              then qdiv base0
                                                                    p5
                                                              else qmult
                                                                    base0 p5)
                                                           | _ :: _ -> None))
                                                     | None -> None)
                                     else let neg = false in
                                          (match dec_digits r0 Z0 O with
                                           | Some p3 ->
                                             let (p4, l) = p3 in
                                             let (ex, n3) = p4 in
                                             (match n3 with
                                              | O -> None
                                              | S _ ->
                                                (match l with
                                                 | [] ->
                                                   let p5 =
                                                     inject_Z
                                                       (Z.pow (Zpos (XO (XI
                                                         (XO XH)))) ex)
                                                   in
                                                   Some
                                                   (if neg
                                                    then qdiv base0 p5
                                                    else qmult base0 p5)
                                                 | _ :: _ -> None))
                                           | None -> None))
                                     a0)
                           else None))
         a)
  | None -> None

(** val similar_meta : char -> bool **)

let similar_meta c =
  existsb ((=) c)
    ('|' :: ('*' :: ('+' :: ('?' :: ('(' :: (')' :: ('[' :: (']' :: ('{' :: ('}' :: ('\\' :: [])))))))))))

(** val sim_match_fuel : nat -> char list -> char list -> bool **)

let rec sim_match_fuel fuel p s =
  match fuel with
  | O -> false
  | S f ->
    (match p with
     | [] -> (match s with
              | [] -> true
              | _::_ -> false)
     | c::p' ->
       (* If this appears, you're using Ascii internals. Please don't *)
 (fun f c ->
  let n = Char.code c in
  let h i = (n land (1 lsl i)) <> 0 in
  f (h 0) (h 1) (h 2) (h 3) (h 4) (h 5) (h 6) (h 7))
         (fun b b0 b1 b2 b3 b4 b5 b6 ->
         if b
         then if b0
              then if b1
                   then if b2
                        then if b3
                             then if b4
                                  then (match s with
                                        | [] -> false
                                        | d::s' ->
                                          (&&) ((=) c d)
                                            (sim_match_fuel f p' s'))
                                  else if b5
                                       then if b6
                                            then (match s with
                                                  | [] -> false
                                                  | d::s' ->
                                                    (&&) ((=) c d)
                                                      (sim_match_fuel f p' s'))
                                            else (match s with
                                                  | [] -> false
                                                  | _::s' ->
                                                    sim_match_fuel f p' s')
                                       else (match s with
                                             | [] -> false
                                             | d::s' ->
                                               (&&) ((=) c d)
                                                 (sim_match_fuel f p' s'))
                             else (match s with
                                   | [] -> false
                                   | d::s' ->
                                     (&&) ((=) c d) (sim_match_fuel f p' s'))
                        else (match s with
                              | [] -> false
                              | d::s' ->
                                (&&) ((=) c d) (sim_match_fuel f p' s'))
                   else (match s with
                         | [] -> false
                         | d::s' -> (&&) ((=) c d) (sim_match_fuel f p' s'))
              else if b1
                   then if b2
                        then (match s with
                              | [] -> false
                              | d::s' ->
                                (&&) ((=) c d) (sim_match_fuel f p' s'))
                        else if b3
                             then (match s with
                                   | [] -> false
                                   | d::s' ->
                                     (&&) ((=) c d) (sim_match_fuel f p' s'))
                             else if b4
                                  then if b5
                                       then (match s with
                                             | [] -> false
                                             | d::s' ->
                                               (&&) ((=) c d)
                                                 (sim_match_fuel f p' s'))
                                       else if b6
                                            then (match s with
                                                  | [] -> false
                                                  | d::s' ->
                                                    (&&) ((=) c d)
                                                      (sim_match_fuel f p' s'))
                                            else (||) (sim_match_fuel f p' s)
                                                   (match s with
                                                    | [] -> false
                                                    | _::s' ->
                                                      sim_match_fuel f p s')
                                  else (match s with
                                        | [] -> false
                                        | d::s' ->
                                          (&&) ((=) c d)
                                            (sim_match_fuel f p' s'))
                   else (match s with
                         | [] -> false
                         | d::s' -> (&&) ((=) c d) (sim_match_fuel f p' s'))
         else (match s with
               | [] -> false
               | d::s' -> (&&) ((=) c d) (sim_match_fuel f p' s')))
         c)

(** val sim_match : char list -> char list -> bool **)

let sim_match p s =
  sim_match_fuel (S (add (length0 p) (length0 s))) p s

(** val has_meta : char list -> bool **)

let rec has_meta = function
| [] -> false
| c::r -> (||) (similar_meta c) (has_meta r)

(** val nat_of_digits : char list -> nat -> nat **)

let rec nat_of_digits s acc =
  match s with
  | [] -> acc
  | c :: t ->
    nat_of_digits t
      (add (mul acc (S (S (S (S (S (S (S (S (S (S O)))))))))))
        (sub (nat_of_ascii c) (S (S (S (S (S (S (S (S (S (S (S (S (S (S (S (S
          (S (S (S (S (S (S (S (S (S (S (S (S (S (S (S (S (S (S (S (S (S (S
          (S (S (S (S (S (S (S (S (S (S
          O))))))))))))))))))))))))))))))))))))))))))))))))))

(** val operand : row -> rval list -> ast -> rval option **)

let operand r params = function
| ACol c -> r (sstr c)
| AStr s -> Some (RStr (sstr s))
| ANum (neg, t) ->
  (match q_of_decimal t with
   | Some q0 -> Some (RNum (if neg then qopp q0 else q0))
   | None -> None)
| AParam k -> nth_error params (sub (nat_of_digits k O) (S O))
| _ -> None

(** val cmp_of : char list -> cmpop option **)

let cmp_of op =
  if eqb0 op ('='::[])
  then Some CEq
  else if eqb0 op ('<'::[])
       then Some CLt
       else if eqb0 op ('<'::('='::[]))
            then Some CLe
            else if eqb0 op ('>'::[])
                 then Some CGt
                 else if eqb0 op ('>'::('='::[])) then Some CGe else None

(** val cmp2 : row -> rval list -> cmpop -> ast -> ast -> bool option **)

let cmp2 r params op a b =
  match operand r params a with
  | Some x ->
    (match operand r params b with
     | Some y -> cmp_vals op x y
     | None -> None)
  | None -> None

(** val ssem : row -> rval list -> ast -> bool option **)

let rec ssem r params = function
| ABool (is_and, l) ->
  let rec go = function
  | [] -> Some is_and
  | x :: rest0 ->
    if is_and
    then opt_and (ssem r params x) (go rest0)
    else opt_or (ssem r params x) (go rest0)
  in go l
| ANot x -> option_map negb (ssem r params x)
| AOp (op, x, y) ->
  (match cmp_of (sstr op) with
   | Some c -> cmp2 r params c x y
   | None -> None)
| AIn (x, l) ->
  let rec go = function
  | [] -> Some false
  | y :: rest0 -> opt_or (cmp2 r params CEq x y) (go rest0)
  in go l
| ABetween (x, lo, hi) ->
  opt_and (cmp2 r params CGe x lo) (cmp2 r params CLe x hi)
| ASimilar (x, p) ->
  (match operand r params x with
   | Some r0 ->
     (match r0 with
      | RNum _ -> None
      | RStr s ->
        (match operand r params p with
         | Some r1 ->
           (match r1 with
            | RNum _ -> None
            | RStr pat ->
              if has_meta pat then None else Some (sim_match pat s))
         | None -> None))
   | None -> None)
| _ -> None

(** val mid : q -> q -> q **)

let mid a b =
  qred (qdiv (qplus a b) (inject_Z (Zpos (XO XH))))

(** val num_probes : q list -> q list **)

let num_probes cs =
  app cs
    (app (map (fun c -> qred (qplus c (inject_Z (Zpos XH)))) cs)
      (app (map (fun c -> qred (qminus c (inject_Z (Zpos XH)))) cs)
        (app (flat_map (fun a -> map (mid a) cs) cs) ((inject_Z Z0) :: []))))

(** val q_lt : q -> q -> bool **)

let q_lt a b =
  match qcompare a b with
  | Lt -> true
  | _ -> false

(** val q_eq : q -> q -> bool **)

let q_eq a b =
  match qcompare a b with
  | Eq -> true
  | _ -> false

(** val key : char list -> char list * char list **)

let key k =
  ((append ('"'::[]) (append k ('"'::[]))), k)

(** val member : char list -> jv -> (char list * char list) * jv **)

let member k v =
  ((key k), v)

(** val jbool : bool -> jv **)

let jbool = function
| true -> JTrue
| false -> JFalse

(** val jnum : oracle2 -> z -> jv **)

let jnum o2 f =
  JNum (match o2.json_num f with
        | Some t -> t
        | None -> [])

(** val jstr : oracle2 -> char list -> jv **)

let jstr o2 s =
  JStr ((o2.json_str s), s)

(** val cst_e : oracle2 -> expr -> jv **)

let cst_e o2 =
  let rec cst_e0 = function
  | E (l, op, r, boost, fuzzy) ->
    if is_leaf op
    then cst_v l
    else JObj
           (app
             ((member ('l'::('e'::('f'::('t'::[])))) (cst_v l)) :: ((member
                                                                    ('o'::('p'::('e'::('r'::('a'::('t'::('o'::('r'::[]))))))))
                                                                    (JStr
                                                                    ((append
                                                                    ('"'::[])
                                                                    (append
                                                                    (op_string
                                                                    op)
                                                                    ('"'::[]))),
                                                                    (op_string
                                                                    op)))) :: []))
             (app
               (match r with
                | VNil -> []
                | _ ->
                  (member ('r'::('i'::('g'::('h'::('t'::[]))))) (cst_v r)) :: [])
               (app
                 (if Z.eqb fuzzy (Zpos XH)
                  then []
                  else (member
                         ('d'::('i'::('s'::('t'::('a'::('n'::('c'::('e'::[]))))))))
                         (JNum (z_to_string fuzzy))) :: [])
                 (if Z.eqb boost one_bits
                  then []
                  else (member ('p'::('o'::('w'::('e'::('r'::[])))))
                         (jnum o2 boost)) :: []))))
  and cst_v = function
  | VNil -> JNull
  | VInt z0 -> JNum (z_to_string z0)
  | VFloat f -> jnum o2 f
  | VStr s -> jstr o2 s
  | VBool b -> jbool b
  | VCol s -> jstr o2 s
  | VExp e -> cst_e0 e
  | VList l ->
    JArr
      (let rec each = function
       | [] -> []
       | x :: rest0 -> (cst_e0 x) :: (each rest0)
       in each l)
  | VBound (mn, mx, incl) ->
    JObj
      ((member ('m'::('i'::('n'::[]))) (cst_v mn)) :: ((member
                                                         ('m'::('a'::('x'::[])))
                                                         (cst_v mx)) :: (
      (member
        ('i'::('n'::('c'::('l'::('u'::('s'::('i'::('v'::('e'::[])))))))))
        (jbool incl)) :: [])))
  in cst_e0

(** val z_opt_eqb : z option -> z -> bool **)

let z_opt_eqb a b =
  match a with
  | Some x -> Z.eqb x b
  | None -> false

(** val float_ok_b : oracle -> oracle2 -> z -> bool **)

let float_ok_b o o2 f =
  match o2.json_num f with
  | Some t ->
    (&&)
      ((&&) (match atoi t with
             | Some _ -> false
             | None -> true) (z_opt_eqb (o.parse_float t) f))
      (negb (o.is_nan_or_inf f))
  | None -> false

(** val power_ok_b : oracle -> oracle2 -> z -> bool **)

let power_ok_b o o2 f =
  match o2.json_num f with
  | Some t -> (&&) (z_opt_eqb (o.parse_float t) f) (negb (o.is_nan_or_inf f))
  | None -> false

(** val int_ok_b : z -> bool **)

let int_ok_b z0 =
  (&&)
    (Z.leb (Zneg (XO (XO (XO (XO (XO (XO (XO (XO (XO (XO (XO (XO (XO (XO (XO
      (XO (XO (XO (XO (XO (XO (XO (XO (XO (XO (XO (XO (XO (XO (XO (XO (XO (XO
      (XO (XO (XO (XO (XO (XO (XO (XO (XO (XO (XO (XO (XO (XO (XO (XO (XO (XO
      (XO (XO (XO (XO (XO (XO (XO (XO (XO (XO (XO (XO
      XH)))))))))))))))))))))))))))))))))))))))))))))))))))))))))))))))) z0)
    (Z.leb z0 (Zpos (XI (XI (XI (XI (XI (XI (XI (XI (XI (XI (XI (XI (XI (XI
      (XI (XI (XI (XI (XI (XI (XI (XI (XI (XI (XI (XI (XI (XI (XI (XI (XI (XI
      (XI (XI (XI (XI (XI (XI (XI (XI (XI (XI (XI (XI (XI (XI (XI (XI (XI (XI
      (XI (XI (XI (XI (XI (XI (XI (XI (XI (XI (XI (XI
      XH))))))))))))))))))))))))))))))))))))))))))))))))))))))))))))))))

(** val dflt : z -> z -> bool **)

let dflt b fz =
  (&&) (Z.eqb b one_bits) (Z.eqb fz (Zpos XH))

(** val leaf_rt_b : oracle -> oracle2 -> expr -> bool **)

let leaf_rt_b o o2 = function
| E (left, op, right, b, fz) ->
  (match left with
   | VInt z0 ->
     (match op with
      | Literal ->
        (match right with
         | VNil -> (&&) (int_ok_b z0) (dflt b fz)
         | _ -> false)
      | _ -> false)
   | VFloat f ->
     (match op with
      | Literal ->
        (match right with
         | VNil -> (&&) (float_ok_b o o2 f) (dflt b fz)
         | _ -> false)
      | _ -> false)
   | VStr s ->
     (match right with
      | VNil -> (&&) (op_eqb (e_op (literal_to_expr (VStr s))) op) (dflt b fz)
      | _ -> false)
   | _ -> false)

(** val field_rt_b : oracle -> oracle2 -> expr -> bool **)

let field_rt_b o o2 = function
| E (left, op, right, b, fz) ->
  (match left with
   | VInt z0 ->
     (match op with
      | Literal ->
        (match right with
         | VNil -> (&&) (int_ok_b z0) (dflt b fz)
         | _ -> false)
      | _ -> false)
   | VFloat f ->
     (match op with
      | Literal ->
        (match right with
         | VNil -> (&&) (float_ok_b o o2 f) (dflt b fz)
         | _ -> false)
      | _ -> false)
   | VCol _ ->
     (match op with
      | Literal -> (match right with
                    | VNil -> dflt b fz
                    | _ -> false)
      | _ -> false)
   | _ -> false)

(** val ki_b : oracle -> oracle2 -> expr -> bool **)

let rec ki_b o o2 e = match e with
| E (l, op, r, b, fz) ->
  (match op with
   | Undefined -> false
   | And ->
     (match l with
      | VExp a ->
        (match r with
         | VExp c -> (&&) ((&&) (ki_b o o2 a) (ki_b o o2 c)) (dflt b fz)
         | _ -> false)
      | _ -> false)
   | Or ->
     (match l with
      | VExp a ->
        (match r with
         | VExp c -> (&&) ((&&) (ki_b o o2 a) (ki_b o o2 c)) (dflt b fz)
         | _ -> false)
      | _ -> false)
   | Not ->
     (match l with
      | VExp a ->
        (match r with
         | VNil -> (&&) (ki_b o o2 a) (dflt b fz)
         | _ -> false)
      | _ -> false)
   | Range ->
     (match l with
      | VExp f ->
        (match r with
         | VBound (mn, mx, _) ->
           (match mn with
            | VExp x ->
              (match mx with
               | VExp y ->
                 (&&)
                   ((&&) ((&&) (field_rt_b o o2 f) (leaf_rt_b o o2 x))
                     (leaf_rt_b o o2 y)) (dflt b fz)
               | _ -> false)
            | _ -> false)
         | _ -> false)
      | _ -> false)
   | Must ->
     (match l with
      | VExp a ->
        (match r with
         | VNil -> (&&) (ki_b o o2 a) (dflt b fz)
         | _ -> false)
      | _ -> false)
   | MustNot ->
     (match l with
      | VExp a ->
        (match r with
         | VNil -> (&&) (ki_b o o2 a) (dflt b fz)
         | _ -> false)
      | _ -> false)
   | Boost ->
     (match l with
      | VExp a ->
        (match r with
         | VNil ->
           (&&)
             ((&&) (ki_b o o2 a)
               ((||) (Z.eqb b one_bits) (power_ok_b o o2 b)))
             (Z.eqb fz (Zpos XH))
         | _ -> false)
      | _ -> false)
   | Fuzzy ->
     (match l with
      | VExp a ->
        (match r with
         | VNil -> (&&) ((&&) (ki_b o o2 a) (Z.eqb b one_bits)) (int_ok_b fz)
         | _ -> false)
      | _ -> false)
   | Literal -> leaf_rt_b o o2 e
   | Wild -> leaf_rt_b o o2 e
   | Regexp -> leaf_rt_b o o2 e
   | In ->
     (match l with
      | VExp f ->
        (match r with
         | VExp e0 ->
           let E (left, op0, right, b', fz') = e0 in
           (match left with
            | VList lits ->
              (match op0 with
               | List ->
                 (match right with
                  | VNil ->
                    (&&)
                      ((&&)
                        ((&&) (field_rt_b o o2 f)
                          (forallb (leaf_rt_b o o2) lits)) (dflt b fz))
                      (dflt b' fz')
                  | _ -> false)
               | _ -> false)
            | _ -> false)
         | _ -> false)
      | _ -> false)
   | List -> false
   | _ ->
     (match l with
      | VExp f ->
        (match r with
         | VExp v -> (&&) ((&&) (field_rt_b o o2 f) (ki_b o o2 v)) (dflt b fz)
         | _ -> false)
      | _ -> false))

(** val sk_e : expr -> expr -> bool **)

let rec sk_e e e' =
  let E (l, op, r, _, _) = e in
  let E (l', op', r', _, _) = e' in
  (&&) ((&&) (op_eqb op op') (sk_v l l')) (sk_v r r')

(** val sk_v : value -> value -> bool **)

and sk_v v v' =
  match v with
  | VNil -> (match v' with
             | VNil -> true
             | _ -> false)
  | VInt _ -> (match v' with
               | VInt _ -> true
               | _ -> false)
  | VFloat _ -> (match v' with
                 | VFloat _ -> true
                 | _ -> false)
  | VStr s ->
    (match v' with
     | VStr s' ->
       (&&) (eqb (eqb0 s ('*'::[])) (eqb0 s' ('*'::[])))
         (eqb (is_regex_text s) (is_regex_text s'))
     | _ -> false)
  | VBool _ -> (match v' with
                | VBool _ -> true
                | _ -> false)
  | VCol c -> (match v' with
               | VCol c' -> eqb0 c c'
               | _ -> false)
  | VExp a -> (match v' with
               | VExp a' -> sk_e a a'
               | _ -> false)
  | VList l ->
    (match v' with
     | VList l' ->
       let rec each l0 l'0 =
         match l0 with
         | [] -> (match l'0 with
                  | [] -> true
                  | _ :: _ -> false)
         | x :: r ->
           (match l'0 with
            | [] -> false
            | x' :: r' -> (&&) (sk_e x x') (each r r'))
       in each l l'
     | _ -> false)
  | VBound (a, b, i) ->
    (match v' with
     | VBound (a', b', i') -> (&&) ((&&) (sk_v a a') (sk_v b b')) (eqb i i')
     | _ -> false)

(** val nat_digits : z -> bytes0 **)

let nat_digits z0 =
  str
    (z_digits (S (S (S (S (S (S (S (S (S (S (S (S (S (S (S (S (S (S (S (S (S
      (S (S (S (S (S (S (S (S (S O)))))))))))))))))))))))))))))) z0 [])

(** val int_toks : z -> tok list **)

let int_toks z0 =
  if Z.ltb z0 Z0
  then (TOp (str ('-'::[]))) :: ((TNum (nat_digits (Z.opp z0))) :: [])
  else (TNum (nat_digits z0)) :: []

(** val int_ast : z -> ast **)

let int_ast z0 =
  if Z.ltb z0 Z0
  then ANum (true, (nat_digits (Z.opp z0)))
  else ANum (false, (nat_digits z0))

(** val const_sql : expr -> (tok list * ast) option **)

let const_sql = function
| E (left, op, right, _, _) ->
  (match left with
   | VInt z0 ->
     (match op with
      | Literal ->
        (match right with
         | VNil -> Some ((int_toks z0), (int_ast z0))
         | _ -> None)
      | _ -> None)
   | VStr s ->
     (match op with
      | Literal ->
        (match right with
         | VNil -> Some (((TStr (str s)) :: []), (AStr (str s)))
         | _ -> None)
      | _ -> None)
   | _ -> None)

(** val translate : char list -> char list **)

let translate p =
  replace_char '?' ('_'::[]) (replace_char '*' ('%'::[]) p)

(** val plain_char : char -> bool **)

let plain_char c =
  (&&) (negb ((=) c '%')) (negb ((=) c '_'))

(** val no_sql_wild : char list -> bool **)

let rec no_sql_wild = function
| [] -> true
| c::r -> (&&) (plain_char c) (no_sql_wild r)

(** val cmp_text : operator -> char list option **)

let cmp_text = function
| Equals -> Some ('='::[])
| Greater -> Some ('>'::[])
| Less -> Some ('<'::[])
| GreaterEq -> Some ('>'::('='::[]))
| LessEq -> Some ('<'::('='::[]))
| _ -> None

(** val consts_sql : expr list -> (tok list list * ast list) option **)

let rec consts_sql = function
| [] -> Some ([], [])
| x :: r ->
  (match const_sql x with
   | Some p ->
     let (t, a) = p in
     (match consts_sql r with
      | Some p0 -> let (ts, as_) = p0 in Some ((t :: ts), (a :: as_))
      | None -> None)
   | None -> None)

(** val comma_join : tok list list -> tok list **)

let rec comma_join = function
| [] -> []
| x :: r ->
  (match r with
   | [] -> x
   | _ :: _ -> app x (TComma :: (comma_join r)))

(** val int_bound : value -> z option **)

let int_bound = function
| VExp e ->
  let E (left, op, right, _, _) = e in
  (match left with
   | VInt z0 ->
     (match op with
      | Literal -> (match right with
                    | VNil -> Some z0
                    | _ -> None)
      | _ -> None)
   | _ -> None)
| _ -> None

(** val tr : expr -> (tok list * ast) option **)

let rec tr = function
| E (l, op, rt, _, _) ->
  (match op with
   | And ->
     (match l with
      | VExp x ->
        (match rt with
         | VExp y ->
           (match tr x with
            | Some p ->
              let (tx, ax) = p in
              (match tr y with
               | Some p0 ->
                 let (ty, ay) = p0 in
                 Some
                 ((TLP :: (app tx (TRP :: ((TKw
                            (match op with
                             | And -> KAnd
                             | _ -> KOr)) :: (TLP :: (app ty (TRP :: []))))))),
                 (match op with
                  | And -> mk_and ax ay
                  | _ -> mk_or ax ay))
               | None -> None)
            | None -> None)
         | _ -> None)
      | _ -> None)
   | Or ->
     (match l with
      | VExp x ->
        (match rt with
         | VExp y ->
           (match tr x with
            | Some p ->
              let (tx, ax) = p in
              (match tr y with
               | Some p0 ->
                 let (ty, ay) = p0 in
                 Some
                 ((TLP :: (app tx (TRP :: ((TKw
                            (match op with
                             | And -> KAnd
                             | _ -> KOr)) :: (TLP :: (app ty (TRP :: []))))))),
                 (match op with
                  | And -> mk_and ax ay
                  | _ -> mk_or ax ay))
               | None -> None)
            | None -> None)
         | _ -> None)
      | _ -> None)
   | Equals ->
     (match field_of l with
      | Some f ->
        (match rt with
         | VExp lf ->
           (match cmp_text op with
            | Some o ->
              (match const_sql lf with
               | Some p ->
                 let (tc, ac) = p in
                 Some (((TIdent (str f)) :: ((TOp (str o)) :: tc)), (AOp
                 ((str o), (ACol (str f)), ac)))
               | None -> None)
            | None -> None)
         | _ -> None)
      | None -> None)
   | Like ->
     (match field_of l with
      | Some f ->
        (match rt with
         | VExp e0 ->
           let E (left, op0, right, _, _) = e0 in
           (match left with
            | VStr p ->
              (match op0 with
               | Wild ->
                 (match right with
                  | VNil ->
                    Some (((TIdent (str f)) :: ((TKw KSimilar) :: ((TKw
                      KTo) :: ((TStr (str (translate p))) :: [])))),
                      (ASimilar ((ACol (str f)), (AStr (str (translate p))))))
                  | _ -> None)
               | _ -> None)
            | _ -> None)
         | _ -> None)
      | None -> None)
   | Not ->
     (match l with
      | VExp x ->
        (match rt with
         | VNil ->
           (match tr x with
            | Some p ->
              let (tx, ax) = p in
              Some (((TKw KNot) :: (TLP :: (app tx (TRP :: [])))), (ANot ax))
            | None -> None)
         | _ -> None)
      | _ -> None)
   | Range ->
     (match field_of l with
      | Some f ->
        (match rt with
         | VBound (lo, hi, incl) ->
           let c = TIdent (str f) in
           let ge = str (if incl then '>'::('='::[]) else '>'::[]) in
           let le = str (if incl then '<'::('='::[]) else '<'::[]) in
           (match int_bound lo with
            | Some a ->
              (match int_bound hi with
               | Some b ->
                 Some ((c :: ((TOp
                   ge) :: (app (int_toks a) ((TKw KAnd) :: (c :: ((TOp
                            le) :: (int_toks b))))))), (ABool (true, ((AOp
                   (ge, (ACol (str f)), (int_ast a))) :: ((AOp (le, (ACol
                   (str f)), (int_ast b))) :: [])))))
               | None ->
                 if is_star hi
                 then Some ((c :: ((TOp ge) :: (int_toks a))), (AOp (ge,
                        (ACol (str f)), (int_ast a))))
                 else None)
            | None ->
              (match int_bound hi with
               | Some b ->
                 if is_star lo
                 then Some ((c :: ((TOp le) :: (int_toks b))), (AOp (le,
                        (ACol (str f)), (int_ast b))))
                 else None
               | None -> None))
         | _ -> None)
      | None -> None)
   | Must ->
     (match l with
      | VExp x -> (match rt with
                   | VNil -> tr x
                   | _ -> None)
      | _ -> None)
   | MustNot ->
     (match l with
      | VExp x ->
        (match rt with
         | VNil ->
           (match tr x with
            | Some p ->
              let (tx, ax) = p in
              Some (((TKw KNot) :: (TLP :: (app tx (TRP :: [])))), (ANot ax))
            | None -> None)
         | _ -> None)
      | _ -> None)
   | Greater ->
     (match field_of l with
      | Some f ->
        (match rt with
         | VExp lf ->
           (match cmp_text op with
            | Some o ->
              (match const_sql lf with
               | Some p ->
                 let (tc, ac) = p in
                 Some (((TIdent (str f)) :: ((TOp (str o)) :: tc)), (AOp
                 ((str o), (ACol (str f)), ac)))
               | None -> None)
            | None -> None)
         | _ -> None)
      | None -> None)
   | Less ->
     (match field_of l with
      | Some f ->
        (match rt with
         | VExp lf ->
           (match cmp_text op with
            | Some o ->
              (match const_sql lf with
               | Some p ->
                 let (tc, ac) = p in
                 Some (((TIdent (str f)) :: ((TOp (str o)) :: tc)), (AOp
                 ((str o), (ACol (str f)), ac)))
               | None -> None)
            | None -> None)
         | _ -> None)
      | None -> None)
   | GreaterEq ->
     (match field_of l with
      | Some f ->
        (match rt with
         | VExp lf ->
           (match cmp_text op with
            | Some o ->
              (match const_sql lf with
               | Some p ->
                 let (tc, ac) = p in
                 Some (((TIdent (str f)) :: ((TOp (str o)) :: tc)), (AOp
                 ((str o), (ACol (str f)), ac)))
               | None -> None)
            | None -> None)
         | _ -> None)
      | None -> None)
   | LessEq ->
     (match field_of l with
      | Some f ->
        (match rt with
         | VExp lf ->
           (match cmp_text op with
            | Some o ->
              (match const_sql lf with
               | Some p ->
                 let (tc, ac) = p in
                 Some (((TIdent (str f)) :: ((TOp (str o)) :: tc)), (AOp
                 ((str o), (ACol (str f)), ac)))
               | None -> None)
            | None -> None)
         | _ -> None)
      | None -> None)
   | In ->
     (match field_of l with
      | Some f ->
        (match rt with
         | VExp e0 ->
           let E (left, op0, right, _, _) = e0 in
           (match left with
            | VList l0 ->
              (match l0 with
               | [] -> None
               | x :: lits ->
                 (match op0 with
                  | List ->
                    (match right with
                     | VNil ->
                       (match consts_sql (x :: lits) with
                        | Some p ->
                          let (ts, as_) = p in
                          Some (((TIdent (str f)) :: ((TKw
                          KIn) :: (TLP :: (app (comma_join ts) (TRP :: []))))),
                          (AIn ((ACol (str f)), as_)))
                        | None -> None)
                     | _ -> None)
                  | _ -> None))
            | _ -> None)
         | _ -> None)
      | None -> None)
   | _ -> None)

(** val int_in_range : z -> bool **)

let int_in_range z0 =
  Z.ltb (Z.abs z0)
    (Z.pow (Zpos (XO (XI (XO XH)))) (Zpos (XO (XI (XI (XI XH))))))

(** val const_side : expr -> bool **)

let const_side = function
| E (left, _, _, _, _) ->
  (match left with
   | VInt z0 -> int_in_range z0
   | _ -> true)

(** val sql_meta_free : char -> bool **)

let sql_meta_free c =
  (||) ((||) (negb (similar_meta c)) ((=) c '*')) ((=) c '?')

(** val meta_free : char list -> bool **)

let rec meta_free = function
| [] -> true
| c::r -> (&&) (sql_meta_free c) (meta_free r)

(** val pattern_side : char list -> bool **)

let pattern_side p =
  (&&) (no_sql_wild p) (meta_free p)

(** val bound_side : value -> bool **)

let bound_side = function
| VExp lf -> const_side lf
| _ -> true

(** val side : expr -> bool **)

let rec side = function
| E (l, op, rt, _, _) ->
  (match op with
   | And -> (&&) (side_v l) (side_v rt)
   | Or -> (&&) (side_v l) (side_v rt)
   | Equals -> bound_side rt
   | Like ->
     (match rt with
      | VExp e0 ->
        let E (left, _, _, _, _) = e0 in
        (match left with
         | VStr p -> pattern_side p
         | _ -> true)
      | _ -> true)
   | Not -> side_v l
   | Range ->
     (match rt with
      | VBound (lo, hi, _) -> (&&) (bound_side lo) (bound_side hi)
      | _ -> true)
   | Must -> side_v l
   | MustNot -> side_v l
   | Greater -> bound_side rt
   | Less -> bound_side rt
   | GreaterEq -> bound_side rt
   | LessEq -> bound_side rt
   | In ->
     (match rt with
      | VExp e0 ->
        let E (left, _, _, _, _) = e0 in
        (match left with
         | VList lits -> forallb const_side lits
         | _ -> true)
      | _ -> true)
   | _ -> true)

(** val side_v : value -> bool **)

and side_v = function
| VExp e -> side e
| _ -> true

(** val fname : value -> char list **)

let fname l =
  match field_of l with
  | Some f -> f
  | None -> []

(** val name_ok : char list -> bool **)

let name_ok f =
  (&&)
    ((&&) (match str f with
           | [] -> false
           | _ :: _ -> true) (forallb (fun c -> negb ((=) c '"')) (str f)))
    (Nat.leb (length (str f)) (S (S (S (S (S (S (S (S (S (S (S (S (S (S (S (S
      (S (S (S (S (S (S (S (S (S (S (S (S (S (S (S (S (S (S (S (S (S (S (S (S
      (S (S (S (S (S (S (S (S (S (S (S (S (S (S (S (S (S (S (S (S (S (S (S
      O))))))))))))))))))))))))))))))))))))))))))))))))))))))))))))))))

(** val names_ok : expr -> bool **)

let rec names_ok = function
| E (l, op, rt, _, _) ->
  (match op with
   | And -> (&&) (names_ok_v l) (names_ok_v rt)
   | Or -> (&&) (names_ok_v l) (names_ok_v rt)
   | Not -> names_ok_v l
   | Must -> names_ok_v l
   | MustNot -> names_ok_v l
   | _ -> name_ok (fname l))

(** val names_ok_v : value -> bool **)

and names_ok_v = function
| VExp e -> names_ok e
| _ -> true

(** val sqs : char list -> char list **)

let sqs v =
  append ('\''::[])
    (append (replace_char '\'' ('\''::('\''::[])) v) ('\''::[]))

(** val int64 : z -> bool **)

let int64 z0 =
  (&&)
    (Z.leb (Zneg (XO (XO (XO (XO (XO (XO (XO (XO (XO (XO (XO (XO (XO (XO (XO
      (XO (XO (XO (XO (XO (XO (XO (XO (XO (XO (XO (XO (XO (XO (XO (XO (XO (XO
      (XO (XO (XO (XO (XO (XO (XO (XO (XO (XO (XO (XO (XO (XO (XO (XO (XO (XO
      (XO (XO (XO (XO (XO (XO (XO (XO (XO (XO (XO (XO
      XH)))))))))))))))))))))))))))))))))))))))))))))))))))))))))))))))) z0)
    (Z.leb z0 (Zpos (XI (XI (XI (XI (XI (XI (XI (XI (XI (XI (XI (XI (XI (XI
      (XI (XI (XI (XI (XI (XI (XI (XI (XI (XI (XI (XI (XI (XI (XI (XI (XI (XI
      (XI (XI (XI (XI (XI (XI (XI (XI (XI (XI (XI (XI (XI (XI (XI (XI (XI (XI
      (XI (XI (XI (XI (XI (XI (XI (XI (XI (XI (XI (XI
      XH))))))))))))))))))))))))))))))))))))))))))))))))))))))))))))))))

(** val like_plain : char list -> bool **)

let like_plain p =
  let r = sqs p in
  let n1 = length0 r in
  negb
    ((&&) ((&&) (Nat.leb (S (S (S (S O)))) n1) (char_at_is r (S O) '/'))
      (char_at_is r (sub n1 (S (S O))) '/'))

(** val bound_int64 : value -> bool **)

let bound_int64 v =
  match int_bound v with
  | Some z0 -> int64 z0
  | None -> true

(** val text_ok : expr -> bool **)

let rec text_ok = function
| E (l, op, rt, _, _) ->
  (match op with
   | And -> (&&) (text_ok_v l) (text_ok_v rt)
   | Or -> (&&) (text_ok_v l) (text_ok_v rt)
   | Like ->
     (match rt with
      | VExp e0 ->
        let E (left, _, _, _, _) = e0 in
        (match left with
         | VStr p -> like_plain p
         | _ -> true)
      | _ -> true)
   | Not -> text_ok_v l
   | Range ->
     (match rt with
      | VBound (lo, hi, _) -> (&&) (bound_int64 lo) (bound_int64 hi)
      | _ -> true)
   | Must -> text_ok_v l
   | MustNot -> text_ok_v l
   | _ -> true)

(** val text_ok_v : value -> bool **)

and text_ok_v = function
| VExp e -> text_ok e
| _ -> true

(** val pnum : nat -> bytes0 **)

let pnum k =
  nat_digits (Z.of_nat k)

(** val const_param : expr -> value option **)

let const_param = function
| E (left, op, right, _, _) ->
  (match left with
   | VInt z0 ->
     (match op with
      | Literal -> (match right with
                    | VNil -> Some (VInt z0)
                    | _ -> None)
      | _ -> None)
   | VStr s ->
     (match op with
      | Literal ->
        (match right with
         | VNil -> if eqb0 s ('*'::[]) then None else Some (VStr s)
         | _ -> None)
      | _ -> None)
   | _ -> None)

(** val consts_param : expr list -> value list option **)

let rec consts_param = function
| [] -> Some []
| x :: r ->
  (match const_param x with
   | Some v ->
     (match consts_param r with
      | Some vs -> Some (v :: vs)
      | None -> None)
   | None -> None)

(** val param_toks : nat -> nat -> tok list **)

let rec param_toks k = function
| O -> []
| S n' ->
  (match n' with
   | O -> (TParam (pnum k)) :: []
   | S _ -> (TParam (pnum k)) :: (TComma :: (param_toks (S k) n')))

(** val param_asts : nat -> nat -> ast list **)

let rec param_asts k = function
| O -> []
| S n' -> (AParam (pnum k)) :: (param_asts (S k) n')

(** val trp : expr -> nat -> ((tok list * ast) * value list) option **)

let rec trp e k =
  let E (l, op, rt, _, _) = e in
  (match op with
   | And ->
     (match l with
      | VExp x ->
        (match rt with
         | VExp y ->
           (match trp x k with
            | Some p ->
              let (p0, px) = p in
              let (tx, ax) = p0 in
              (match trp y (add k (length px)) with
               | Some p1 ->
                 let (p2, py) = p1 in
                 let (ty, ay) = p2 in
                 Some
                 (((TLP :: (app tx (TRP :: ((TKw
                             (match op with
                              | And -> KAnd
                              | _ -> KOr)) :: (TLP :: (app ty (TRP :: []))))))),
                 (match op with
                  | And -> mk_and ax ay
                  | _ -> mk_or ax ay)), (app px py))
               | None -> None)
            | None -> None)
         | _ -> None)
      | _ -> None)
   | Or ->
     (match l with
      | VExp x ->
        (match rt with
         | VExp y ->
           (match trp x k with
            | Some p ->
              let (p0, px) = p in
              let (tx, ax) = p0 in
              (match trp y (add k (length px)) with
               | Some p1 ->
                 let (p2, py) = p1 in
                 let (ty, ay) = p2 in
                 Some
                 (((TLP :: (app tx (TRP :: ((TKw
                             (match op with
                              | And -> KAnd
                              | _ -> KOr)) :: (TLP :: (app ty (TRP :: []))))))),
                 (match op with
                  | And -> mk_and ax ay
                  | _ -> mk_or ax ay)), (app px py))
               | None -> None)
            | None -> None)
         | _ -> None)
      | _ -> None)
   | Equals ->
     (match field_of l with
      | Some f ->
        (match rt with
         | VExp lf ->
           (match cmp_text op with
            | Some o ->
              (match const_param lf with
               | Some v ->
                 Some ((((TIdent (str f)) :: ((TOp (str o)) :: ((TParam
                   (pnum k)) :: []))), (AOp ((str o), (ACol (str f)), (AParam
                   (pnum k))))), (v :: []))
               | None -> None)
            | None -> None)
         | _ -> None)
      | None -> None)
   | Like ->
     (match field_of l with
      | Some f ->
        (match rt with
         | VExp e0 ->
           let E (left, op0, right, _, _) = e0 in
           (match left with
            | VStr p ->
              (match op0 with
               | Wild ->
                 (match right with
                  | VNil ->
                    if is_regex_text p
                    then None
                    else Some ((((TIdent (str f)) :: ((TKw KSimilar) :: ((TKw
                           KTo) :: ((TParam (pnum k)) :: [])))), (ASimilar
                           ((ACol (str f)), (AParam (pnum k))))), ((VStr
                           (translate p)) :: []))
                  | _ -> None)
               | _ -> None)
            | _ -> None)
         | _ -> None)
      | None -> None)
   | Not ->
     (match l with
      | VExp x ->
        (match rt with
         | VNil ->
           (match trp x k with
            | Some p ->
              let (p0, px) = p in
              let (tx, ax) = p0 in
              Some ((((TKw KNot) :: (TLP :: (app tx (TRP :: [])))), (ANot
              ax)), px)
            | None -> None)
         | _ -> None)
      | _ -> None)
   | Range ->
     (match field_of l with
      | Some f ->
        (match rt with
         | VBound (lo, hi, incl) ->
           let c = TIdent (str f) in
           let ge = str (if incl then '>'::('='::[]) else '>'::[]) in
           let le = str (if incl then '<'::('='::[]) else '<'::[]) in
           (match int_bound lo with
            | Some a ->
              (match int_bound hi with
               | Some b ->
                 Some (((c :: ((TOp ge) :: ((TParam (pnum k)) :: ((TKw
                   KAnd) :: (c :: ((TOp le) :: ((TParam
                   (pnum (S k))) :: []))))))), (ABool (true, ((AOp (ge, (ACol
                   (str f)), (AParam (pnum k)))) :: ((AOp (le, (ACol
                   (str f)), (AParam (pnum (S k))))) :: []))))), ((VInt
                   a) :: ((VInt b) :: [])))
               | None ->
                 if is_star hi
                 then Some (((c :: ((TOp ge) :: ((TParam (pnum k)) :: []))),
                        (AOp (ge, (ACol (str f)), (AParam (pnum k))))),
                        ((VInt a) :: []))
                 else None)
            | None ->
              (match int_bound hi with
               | Some b ->
                 if is_star lo
                 then Some (((c :: ((TOp le) :: ((TParam (pnum k)) :: []))),
                        (AOp (le, (ACol (str f)), (AParam (pnum k))))),
                        ((VInt b) :: []))
                 else None
               | None -> None))
         | _ -> None)
      | None -> None)
   | Must ->
     (match l with
      | VExp x -> (match rt with
                   | VNil -> trp x k
                   | _ -> None)
      | _ -> None)
   | MustNot ->
     (match l with
      | VExp x ->
        (match rt with
         | VNil ->
           (match trp x k with
            | Some p ->
              let (p0, px) = p in
              let (tx, ax) = p0 in
              Some ((((TKw KNot) :: (TLP :: (app tx (TRP :: [])))), (ANot
              ax)), px)
            | None -> None)
         | _ -> None)
      | _ -> None)
   | Greater ->
     (match field_of l with
      | Some f ->
        (match rt with
         | VExp lf ->
           (match cmp_text op with
            | Some o ->
              (match const_param lf with
               | Some v ->
                 Some ((((TIdent (str f)) :: ((TOp (str o)) :: ((TParam
                   (pnum k)) :: []))), (AOp ((str o), (ACol (str f)), (AParam
                   (pnum k))))), (v :: []))
               | None -> None)
            | None -> None)
         | _ -> None)
      | None -> None)
   | Less ->
     (match field_of l with
      | Some f ->
        (match rt with
         | VExp lf ->
           (match cmp_text op with
            | Some o ->
              (match const_param lf with
               | Some v ->
                 Some ((((TIdent (str f)) :: ((TOp (str o)) :: ((TParam
                   (pnum k)) :: []))), (AOp ((str o), (ACol (str f)), (AParam
                   (pnum k))))), (v :: []))
               | None -> None)
            | None -> None)
         | _ -> None)
      | None -> None)
   | GreaterEq ->
     (match field_of l with
      | Some f ->
        (match rt with
         | VExp lf ->
           (match cmp_text op with
            | Some o ->
              (match const_param lf with
               | Some v ->
                 Some ((((TIdent (str f)) :: ((TOp (str o)) :: ((TParam
                   (pnum k)) :: []))), (AOp ((str o), (ACol (str f)), (AParam
                   (pnum k))))), (v :: []))
               | None -> None)
            | None -> None)
         | _ -> None)
      | None -> None)
   | LessEq ->
     (match field_of l with
      | Some f ->
        (match rt with
         | VExp lf ->
           (match cmp_text op with
            | Some o ->
              (match const_param lf with
               | Some v ->
                 Some ((((TIdent (str f)) :: ((TOp (str o)) :: ((TParam
                   (pnum k)) :: []))), (AOp ((str o), (ACol (str f)), (AParam
                   (pnum k))))), (v :: []))
               | None -> None)
            | None -> None)
         | _ -> None)
      | None -> None)
   | In ->
     (match field_of l with
      | Some f ->
        (match rt with
         | VExp e0 ->
           let E (left, op0, right, _, _) = e0 in
           (match left with
            | VList l0 ->
              (match l0 with
               | [] -> None
               | x :: lits ->
                 (match op0 with
                  | List ->
                    (match right with
                     | VNil ->
                       (match consts_param (x :: lits) with
                        | Some vs ->
                          Some ((((TIdent (str f)) :: ((TKw
                            KIn) :: (TLP :: (app (param_toks k (length vs))
                                              (TRP :: []))))), (AIn ((ACol
                            (str f)), (param_asts k (length vs))))), vs)
                        | None -> None)
                     | _ -> None)
                  | _ -> None))
            | _ -> None)
         | _ -> None)
      | None -> None)
   | _ -> None)

(** val number_q : bytes0 -> nat -> bool -> bool -> bytes0 **)

let rec number_q s k inq ins =
  match s with
  | [] -> []
  | c :: r ->
    if (&&) ((=) c '"') (negb ins)
    then c :: (number_q r k (negb inq) ins)
    else if (&&) ((=) c '\'') (negb inq)
         then c :: (number_q r k inq (negb ins))
         else if (&&) ((&&) ((=) c '?') (negb inq)) (negb ins)
              then '$' :: (app (pnum k) (number_q r (S k) inq ins))
              else c :: (number_q r k inq ins)

(** val number_placeholders : bytes0 -> bytes0 **)

let number_placeholders s =
  number_q s (S O) false false

(** val esc_u : classes -> nat -> bytes -> bytes **)

let rec esc_u cl n1 s =
  match n1 with
  | O -> []
  | S n' ->
    (match decode_rune s with
     | Some p ->
       let (r, w) = p in
       app (if is_alnum cl r then firstn w s else '\\' :: (firstn w s))
         (esc_u cl n' (skipn w s))
     | None -> [])

(** val esc : classes -> bytes -> bytes **)

let esc cl s =
  esc_u cl (length s) s
