(* the executable predicate Spec/Inferable.ki_b implies the premise ki of the JSON round-trip theorem *)
Require Import Parser ParserShape Render Decode Shape Cst Inferable JsonRoundTrip.
From Coq Require Import List Ascii String ZArith Bool Lia Arith.
Import ListNotations.

Section B.
Variable o : Parser.oracle.
Variable o2 : oracle2.

Lemma dflt_spec b fz : dflt b fz = true -> b = one_bits /\ fz = 1%Z.
Proof. unfold dflt. intros H. apply andb_true_iff in H. destruct H as [H1 H2]. split; apply Z.eqb_eq; assumption. Qed.
Lemma int_ok_spec z : int_ok_b z = true -> int_ok z.
Proof. unfold int_ok_b, int_ok. intros H. apply andb_true_iff in H. destruct H as [H1 H2]. split; apply Z.leb_le; assumption. Qed.
Lemma float_ok_spec f : float_ok_b o o2 f = true -> float_ok o o2 f.
Proof.
  unfold float_ok_b, float_ok. destruct (json_num o2 f) as [t|]; [|discriminate]. intros H.
  apply andb_true_iff in H. destruct H as [H H3]. apply andb_true_iff in H. destruct H as [H1 H2].
  exists t. split; [reflexivity|]. split; [destruct (atoi t); [discriminate|reflexivity]|].
  split; [unfold z_opt_eqb in H2; destruct (parse_float o t); [apply Z.eqb_eq in H2; subst; reflexivity|discriminate]|].
  apply negb_true_iff in H3. exact H3.
Qed.

Lemma power_ok_spec f : power_ok_b o o2 f = true -> power_ok o o2 f.
Proof.
  unfold power_ok_b, power_ok. destruct (json_num o2 f) as [t|]; [|discriminate]. intros H.
  apply andb_true_iff in H. destruct H as [H2 H3].
  exists t. split; [reflexivity|]. split; [unfold z_opt_eqb in H2; destruct (parse_float o t); [apply Z.eqb_eq in H2; subst; reflexivity|discriminate]|].
  apply negb_true_iff in H3. exact H3.
Qed.

Lemma op_eqb_eq a b : op_eqb a b = true -> a = b.
Proof. destruct a, b; cbn; intros H; try discriminate; reflexivity. Qed.

Lemma literal_to_expr_shape s : exists op, literal_to_expr (VStr s) = E (VStr s) op VNil one_bits 1%Z.
Proof.
  unfold literal_to_expr. destruct ((2 <=? String.length s)%nat && _); [eexists; reflexivity|].
  destruct (contains_char "*"%char s || contains_char "?"%char s); eexists; reflexivity.
Qed.

Lemma leaf_rt_spec e : leaf_rt_b o o2 e = true -> leaf_rt o o2 e.
Proof.
  destruct e as [l op r b fz]. unfold leaf_rt_b, leaf_rt. destruct l; try discriminate.
  - destruct op; try discriminate. destruct r; try discriminate. intros H. apply andb_true_iff in H. destruct H as [H1 H2].
    destruct (dflt_spec _ _ H2) as [-> ->]. right. left. exists z. split; [reflexivity|apply int_ok_spec; exact H1].
  - destruct op; try discriminate. destruct r; try discriminate. intros H. apply andb_true_iff in H. destruct H as [H1 H2].
    destruct (dflt_spec _ _ H2) as [-> ->]. right. right. exists bits. split; [reflexivity|apply float_ok_spec; exact H1].
  - destruct r; try discriminate. intros H. apply andb_true_iff in H. destruct H as [H1 H2].
    destruct (dflt_spec _ _ H2) as [-> ->]. left. exists s. split; [reflexivity|].
    destruct (literal_to_expr_shape s) as [op' E]. rewrite E in *. cbn [e_op] in H1. apply op_eqb_eq in H1. subst. reflexivity.
Qed.

Lemma field_rt_spec e : field_rt_b o o2 e = true -> field_rt o o2 e.
Proof.
  destruct e as [l op r b fz]. unfold field_rt_b, field_rt. destruct l; try discriminate; destruct op; try discriminate; destruct r; try discriminate; intros H.
  - apply andb_true_iff in H. destruct H as [H1 H2]. destruct (dflt_spec _ _ H2) as [-> ->]. right. left. exists z. split; [reflexivity|apply int_ok_spec; exact H1].
  - apply andb_true_iff in H. destruct H as [H1 H2]. destruct (dflt_spec _ _ H2) as [-> ->]. right. right. exists bits. split; [reflexivity|apply float_ok_spec; exact H1].
  - destruct (dflt_spec _ _ H) as [-> ->]. left. exists s. reflexivity.
Qed.

Ltac split_and := repeat match goal with H : _ && _ = true |- _ => apply andb_true_iff in H; destruct H end.
Ltac use_dflt := repeat match goal with H : dflt _ _ = true |- _ => let A := fresh in let B := fresh in destruct (dflt_spec _ _ H) as [A B]; clear H; subst end.

Lemma forall_leaf lits : forallb (leaf_rt_b o o2) lits = true -> Forall (leaf_rt o o2) lits.
Proof.
  induction lits as [|x xs IH]; intros H; [constructor|]. cbn [forallb] in H. apply andb_true_iff in H. destruct H as [Hx Hxs].
  constructor; [apply leaf_rt_spec; exact Hx|apply IH; exact Hxs].
Qed.

Lemma ki_spec : forall n e, esize e <= n -> ki_b o o2 e = true -> ki o o2 e.
Proof.
  induction n as [|n IH]; intros e Hs H; [destruct e; cbn in Hs; lia|].
  destruct e as [l op r b fz]. cbn in Hs.
  destruct op; cbn [ki_b ki] in *; try discriminate; try (apply leaf_rt_spec; exact H).
  - (* And *) destruct l as [| | | | | | a | |]; try discriminate. destruct r as [| | | | | | c | |]; try discriminate. cbn in Hs. split_and. use_dflt.
    repeat split; try reflexivity; try (apply IH; [lia|assumption]).
  - (* Or *) destruct l as [| | | | | | a | |]; try discriminate. destruct r as [| | | | | | c | |]; try discriminate. cbn in Hs. split_and. use_dflt.
    repeat split; try reflexivity; try (apply IH; [lia|assumption]).
  - (* Equals *) destruct l as [| | | | | | a | |]; try discriminate. destruct r as [| | | | | | c | |]; try discriminate. cbn in Hs. split_and. use_dflt.
    repeat split; try reflexivity; try (apply field_rt_spec; assumption); try (apply IH; [lia|assumption]).
  - (* Like *) destruct l as [| | | | | | a | |]; try discriminate. destruct r as [| | | | | | c | |]; try discriminate. cbn in Hs. split_and. use_dflt.
    repeat split; try reflexivity; try (apply field_rt_spec; assumption); try (apply IH; [lia|assumption]).
  - (* Not *) destruct l as [| | | | | | a | |]; try discriminate. destruct r; try discriminate. cbn in Hs. split_and. use_dflt.
    repeat split; try reflexivity; try (apply IH; [lia|assumption]).
  - (* Range *) destruct l as [| | | | | | a | |]; try discriminate. destruct r as [| | | | | | | |mn mx incl]; try discriminate.
    destruct mn as [| | | | | | x | |]; try discriminate. destruct mx as [| | | | | | y | |]; try discriminate. split_and. use_dflt.
    repeat split; try reflexivity; try (apply field_rt_spec; assumption); try (apply leaf_rt_spec; assumption).
  - (* Must *) destruct l as [| | | | | | a | |]; try discriminate. destruct r; try discriminate. cbn in Hs. split_and. use_dflt.
    repeat split; try reflexivity; try (apply IH; [lia|assumption]).
  - (* MustNot *) destruct l as [| | | | | | a | |]; try discriminate. destruct r; try discriminate. cbn in Hs. split_and. use_dflt.
    repeat split; try reflexivity; try (apply IH; [lia|assumption]).
  - (* Boost *) destruct l as [| | | | | | a | |]; try discriminate. destruct r; try discriminate. cbn in Hs. split_and.
    match goal with H : _ || _ = true |- _ => apply orb_true_iff in H; rename H into Hb end.
    split; [apply IH; [lia|assumption]|split; [destruct Hb as [Hb|Hb]; [left; apply Z.eqb_eq; exact Hb|right; apply power_ok_spec; exact Hb] | apply Z.eqb_eq; assumption]].
  - (* Fuzzy *) destruct l as [| | | | | | a | |]; try discriminate. destruct r; try discriminate. cbn in Hs. split_and.
    split; [apply IH; [lia|assumption]|split; [apply Z.eqb_eq; assumption|apply int_ok_spec; assumption]].
  - (* Greater *) destruct l as [| | | | | | a | |]; try discriminate. destruct r as [| | | | | | c | |]; try discriminate. cbn in Hs. split_and. use_dflt.
    repeat split; try reflexivity; try (apply field_rt_spec; assumption); try (apply IH; [lia|assumption]).
  - (* Less *) destruct l as [| | | | | | a | |]; try discriminate. destruct r as [| | | | | | c | |]; try discriminate. cbn in Hs. split_and. use_dflt.
    repeat split; try reflexivity; try (apply field_rt_spec; assumption); try (apply IH; [lia|assumption]).
  - (* GreaterEq *) destruct l as [| | | | | | a | |]; try discriminate. destruct r as [| | | | | | c | |]; try discriminate. cbn in Hs. split_and. use_dflt.
    repeat split; try reflexivity; try (apply field_rt_spec; assumption); try (apply IH; [lia|assumption]).
  - (* LessEq *) destruct l as [| | | | | | a | |]; try discriminate. destruct r as [| | | | | | c | |]; try discriminate. cbn in Hs. split_and. use_dflt.
    repeat split; try reflexivity; try (apply field_rt_spec; assumption); try (apply IH; [lia|assumption]).
  - (* In *) destruct l as [| | | | | | a | |]; try discriminate. destruct r as [| | | | | | c | |]; try discriminate.
    destruct c as [cl cop cr cb cf]. destruct cl as [| | | | | | |lits|]; try discriminate. destruct cop; try discriminate. destruct cr; try discriminate.
    split_and. use_dflt. repeat split; try reflexivity; try (apply field_rt_spec; assumption); try (apply forall_leaf; assumption).
Qed.

Theorem inferable_roundtrip :
  (forall s, exists r, json_str o2 s = String """"%char r) -> (forall r, parse_float o (String """"%char r) = None) ->
  (forall v, looks_like_boundary (cst_v o2 v) = is_bound v) ->
  forall e, ki_b o o2 e = true -> decode o (cst_e o2 e) = DOk e.
Proof. intros H1 H2 H3 e K. apply (decode_encode o o2 H1 H2 H3). apply (ki_spec (esize e) e (le_n _) K). Qed.
End B.
