(* Scratch: C13 — the fuel of the decoder model is never the reason for an outcome *)
Require Import Parser Render Decode.
From Coq Require Import List Ascii String ZArith Bool Lia.
Import ListNotations.

Section F.
Variable o : Parser.oracle.

Lemma bindings_size k l x : In x (bindings k l) -> jsize x < jsize (JObj l).
Proof.
  cbn [jsize]. induction l as [|[[rk dk] v] l IH]; cbn [bindings fold_right]; [intros []|].
  destruct (String.eqb (lower dk) k).
  - intros [<-|H]; [lia|specialize (IH H); lia].
  - intros H. specialize (IH H). lia.
Qed.

Lemma dec_raw_in vs x : dec_raw vs = Some x -> In x vs.
Proof.
  unfold dec_raw. induction vs as [|v vs IH]; cbn [map last]; [discriminate|].
  destruct vs as [|v2 vs2]; cbn [map] in *; [intros H; inversion H; left; reflexivity|].
  intros H. right. apply IH. exact H.
Qed.

Definition agree (um1 um2 : jv -> dres) (n : nat) : Prop := forall x, jsize x < n -> um1 x = um2 x.

Lemma lift_agree um1 um2 n x : agree um1 um2 n -> jsize x < n -> lift um1 x = lift um2 x.
Proof. intros A H. unfold lift. rewrite (A x H). reflexivity. Qed.

Lemma dec_bound_agree um1 um2 n vs : agree um1 um2 n -> (forall x, In x vs -> jsize x < n) ->
  dec_bound um1 vs = dec_bound um2 vs.
Proof.
  intros A. unfold dec_bound. generalize (@inl (option value) string (Some VNil)).
  induction vs as [|v vs IH]; intros acc H; cbn [fold_left]; [reflexivity|].
  assert (E : bound_step um1 acc v = bound_step um2 acc v).
  { unfold bound_step. destruct acc as [[a|]|s]; try reflexivity. destruct v; try reflexivity;
      apply (lift_agree um1 um2 n); auto; apply H; left; reflexivity. }
  rewrite E. apply IH. intros x Hx. apply H. right. exact Hx.
Qed.

Lemma um_obj_agree um1 um2 l : agree um1 um2 (jsize (JObj l)) -> um_obj o um1 l = um_obj o um2 l.
Proof.
  intros A. unfold um_obj.
  destruct (dec_string _); [|reflexivity]. destruct (dec_int _); [|reflexivity]. destruct (dec_float _ _); [|reflexivity].
  destruct (dec_boundaries_ok _); [|reflexivity].
  assert (EL : dec_left o um1 (dec_raw (bindings "left" l)) = dec_left o um2 (dec_raw (bindings "left" l))).
  { unfold dec_left. destruct (dec_raw (bindings "left" l)) as [x|] eqn:R; [|reflexivity].
    pose proof (bindings_size _ _ _ (dec_raw_in _ _ R)) as Hx.
    destruct x; try reflexivity; apply (lift_agree um1 um2 _ _ A Hx). }
  rewrite EL. destruct (dec_left o um2 _) as [[lv|]|s1]; try reflexivity.
  assert (ER : dec_right um1 (dec_raw (bindings "right" l)) = dec_right um2 (dec_raw (bindings "right" l))).
  { unfold dec_right. destruct (dec_raw (bindings "right" l)) as [r|] eqn:R; [|reflexivity].
    pose proof (bindings_size _ _ _ (dec_raw_in _ _ R)) as Hr.
    destruct (looks_like_boundary r); [|apply (lift_agree um1 um2 _ _ A Hr)].
    destruct r as [| | | | | |rl]; try reflexivity.
    assert (B : forall k, dec_bound um1 (bindings k rl) = dec_bound um2 (bindings k rl)).
    { intros k. apply (dec_bound_agree um1 um2 _ _ A). intros x Hx. pose proof (bindings_size _ _ _ Hx). lia. }
    rewrite !B. reflexivity. }
  rewrite ER. reflexivity.
Qed.

Theorem unmarshal_fuel : forall f1 f2 v, jsize v < f1 -> jsize v < f2 -> unmarshal o f1 v = unmarshal o f2 v.
Proof.
  induction f1 as [|f1 IH]; intros f2 v H1 H2; [lia|]. destruct f2 as [|f2]; [lia|].
  cbn [unmarshal]. destruct v; try reflexivity. apply um_obj_agree. intros x Hx. apply IH; lia.
Qed.
Theorem decode_fuel_free v k : decode o v = unmarshal o (S (jsize v) + k) v.
Proof. unfold decode. apply unmarshal_fuel; lia. Qed.
End F.
Print Assumptions decode_fuel_free.
