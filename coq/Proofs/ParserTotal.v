(* Scratch: C01 for the parser on the faithful model: never Panic, never OutOfFuel *)
Require Import Parser.
From Coq Require Import List String ZArith Bool Lia Arith.
Import ListNotations.
Close Scope string_scope.
Open Scope nat_scope.

Arguments expr_new : simpl never.
Arguments parse_literal : simpl never.
Arguments to_positive_float : simpl never.
Arguments wrap_literal : simpl never.
Arguments drop : simpl never.

Section T.
Variable o : oracle.
Variable df : string.

Fixpoint stack_toks (r : list item) : list token :=
  match r with [] => [] | ITok t :: r' => t :: stack_toks r' | IExp _ :: r' => stack_toks r' end.
(* tokens of a popped segment (original order) *)
Fixpoint seg_toks (top : list item) : list token :=
  match top with [] => [] | ITok t :: r => t :: seg_toks r | IExp _ :: r => seg_toks r end.

Definition Inv (c : cfg) : Prop := ns c = stack_toks (rs c) ++ [start].

(* ---- expr_new only panics on the two asserted shapes ---- *)
Lemma expr_new_ret l op right :
  (op = Tables.In -> match right with VExp _ :: _ => True | [] => True | _ => False end) ->
  (op = Tables.List -> match l with VList _ => True | _ => False end) ->
  exists e, expr_new l op right = Ret e.
Proof.
  intros HIn HList. unfold expr_new.
  destruct op; try (specialize (HIn eq_refl)); try (specialize (HList eq_refl)).
  all: try (destruct l; try contradiction; cbn; eexists; reflexivity).
  all: repeat match goal with
       | |- context [match ?r with [] => _ | _ :: _ => _ end] => destruct r
       | |- context [match ?v with VNil => _ | _ => _ end] => destruct v
       | |- context [if ?b then _ else _] => destruct b
       end; try contradiction; eexists; reflexivity.
Qed.

Lemma wrap_literal_ret e : exists e', wrap_literal e df = Ret e'.
Proof.
  unfold wrap_literal. destruct (String.eqb df ""); [eexists; reflexivity|].
  destruct (is_leaf_op (e_op e)); [|eexists; reflexivity].
  unfold eq_. apply expr_new_ret; intros; discriminate.
Qed.

Lemma drop_ok {A} n (l : list A) : n <= List.length l -> drop n l = Ret (skipn n l).
Proof. intros H. unfold drop. apply Nat.leb_le in H. rewrite H. reflexivity. Qed.

Lemma rev_app_skip {A} (a b : list A) : skipn (List.length a) (a ++ b) = b.
Proof. induction a; simpl; auto. Qed.

(* ---- every reducer keeps nts in step with the tokens of the segment ---- *)
Ltac ret_expr_new :=
  match goal with
  | |- context [expr_new ?l ?op ?r] =>
      let He := fresh "He" in let e := fresh "e" in
      destruct (expr_new_ret l op r) as [e He]; [try (intros; discriminate); try (intros; exact I) .. | rewrite He; cbn [bind]]
  end.
Ltac ret_wrap :=
  match goal with
  | |- context [wrap_literal ?x df] =>
      let He := fresh "Hw" in let e := fresh "w" in
      destruct (wrap_literal_ret x) as [e He]; rewrite He; cbn [bind]
  end.

Lemma Some_inj {A} (a b : A) : Some a = Some b -> a = b.
Proof. congruence. Qed.

Lemma reducer_inv : forall rd, In rd (reducers o) -> forall top rest res,
  rd top (rev (seg_toks top) ++ rest) df = Some res ->
  exists top', res = Ret (top', rev (seg_toks top') ++ rest).
Proof.
  intros rd Hin top rest res H.
  unfold reducers in Hin. simpl in Hin.
  repeat (destruct Hin as [<-|Hin]); try contradiction.
  all: try (unfold r_and_or, r_equal, r_compare, r_compare_eq, r_sub, r_prefix, r_fuzzy, r_boost, r_range in H;
    repeat match type of H with
    | match ?x with _ => _ end = _ => destruct x eqn:?; try discriminate
    | (if ?x then _ else _) = _ => destruct x eqn:?; try discriminate
    | (let '(_, _) := ?x in _) = _ => destruct x eqn:?
    end;
    apply Some_inj in H; subst res; cbn [seg_toks rev app]; unfold eq_;
    repeat match goal with |- context [if ?c then _ else _] => destruct c end;
    repeat first [ret_wrap | ret_expr_new];
    repeat rewrite <- app_assoc; cbn [app];
    try (rewrite drop_ok by (cbn; lia)); cbn;
    match goal with |- exists _, Ret (?t, _) = _ => exists t end; reflexivity).
  (* r_not *)
  unfold r_not in H.
  destruct (split_last2 top) as [[[p a] b]|] eqn:E; try discriminate.
  destruct a as [t|]; try discriminate. destruct b as [|x]; try discriminate.
  destruct (is TNot t); try discriminate.
  apply Some_inj in H; subst res.
  assert (Htop : forall (l : list item) p a b, split_last2 l = Some (p, a, b) -> l = p ++ [a; b]).
  { clear. induction l as [|h l IH]; intros p a b E; [discriminate|].
    destruct l as [|y l]; [discriminate|]. destruct l as [|z l].
    - inversion E; subst. reflexivity.
    - change (split_last2 (h :: y :: z :: l)) with
        (match split_last2 (y :: z :: l) with Some (p0, a0, b0) => Some (h :: p0, a0, b0) | None => None end) in E.
      destruct (split_last2 (y :: z :: l)) as [[[p' a'] b']|] eqn:E'; try discriminate.
      inversion E; subst. rewrite (IH p' a b eq_refl). reflexivity. }
  apply Htop in E. clear Htop.
  subst top.
  assert (Hseg : forall l1 l2, seg_toks (l1 ++ l2) = seg_toks l1 ++ seg_toks l2).
  { induction l1 as [|[?|?] l1 IH]; intros; cbn; auto. rewrite IH. reflexivity. }
  rewrite !Hseg. cbn [seg_toks app]. rewrite ?app_nil_r. rewrite rev_app_distr. cbn [rev app].
  ret_wrap. ret_expr_new. rewrite drop_ok by (cbn; lia). cbn.
  match goal with |- exists _, Ret (?t, _) = _ => exists t end.
  rewrite Hseg. cbn [seg_toks]. rewrite ?app_nil_r. reflexivity.
Qed.


Lemma seg_app l1 l2 : seg_toks (l1 ++ l2) = seg_toks l1 ++ seg_toks l2.
Proof. induction l1 as [|[?|?] l1 IH]; cbn; auto. rewrite IH. reflexivity. Qed.
Lemma stack_rev_append top rest : stack_toks (rev_append top rest) = rev (seg_toks top) ++ stack_toks rest.
Proof.
  revert rest. induction top as [|[t|e] top IH]; intros rest; cbn; auto.
  - rewrite IH. cbn. rewrite <- app_assoc. reflexivity.
  - rewrite IH. reflexivity.
Qed.

Lemma try_reducers_inv : forall rds, (forall rd, In rd rds -> In rd (reducers o)) -> forall top rest res,
  try_reducers rds top (rev (seg_toks top) ++ rest) df = Some res ->
  exists top', res = Ret (top', rev (seg_toks top') ++ rest).
Proof.
  induction rds as [|rd rds IH]; intros Hsub top rest res H; cbn in H; try discriminate.
  destruct (rd top (rev (seg_toks top) ++ rest) df) eqn:E.
  - apply Some_inj in H. subst. eapply reducer_inv; eauto. apply Hsub. left. reflexivity.
  - eapply IH; eauto. intros. apply Hsub. right. assumption.
Qed.

(* reduce never panics and keeps the invariant *)
Lemma reduce_inv : forall r top rest,
  match reduce_loop o r top (rev (seg_toks top) ++ stack_toks r ++ rest) df with
  | RPanic _ => False
  | ROk r' n' => n' = stack_toks r' ++ rest
  | RFail => True
  end.
Proof.
  induction r as [|s r IH]; intros top rest; cbn [reduce_loop]; auto.
  assert (Hn : rev (seg_toks top) ++ stack_toks (s :: r) ++ rest = rev (seg_toks (s :: top)) ++ stack_toks r ++ rest).
  { destruct s; cbn; auto. rewrite <- app_assoc. reflexivity. }
  rewrite Hn.
  destruct (try_reducers (reducers o) (s :: top) (rev (seg_toks (s :: top)) ++ stack_toks r ++ rest) df) eqn:E.
  - destruct (try_reducers_inv _ (fun _ h => h) _ _ _ E) as [top' ->].
    rewrite stack_rev_append. rewrite app_assoc. reflexivity.
  - apply IH.
Qed.

Lemma reduce_inv0 r rest :
  match reduce_loop o r [] (stack_toks r ++ rest) df with
  | RPanic _ => False | ROk r' n' => n' = stack_toks r' ++ rest | RFail => True end.
Proof. apply (reduce_inv r [] rest). Qed.

(* one step: never crashes, keeps Inv *)
Lemma step_inv c : Inv c ->
  match step o df c with
  | Crash _ => False
  | Next c' => Inv c'
  | _ => True
  end.
Proof.
  unfold Inv. intros HI. destruct c as [r n tk p]. cbn [rs ns toks pend] in *. subst n.
  unfold step. cbn [pend ns rs toks].
  assert (HR : match do_reduce o {| rs := r; ns := stack_toks r ++ [start]; toks := tk; pend := p |} df with
               | Crash _ => False | Next c' => ns c' = stack_toks (rs c') ++ [start] | _ => True end).
  { unfold do_reduce. cbn [rs ns toks pend]. pose proof (reduce_inv0 r [start]) as HH.
    destruct (reduce_loop o r [] (stack_toks r ++ [start]) df); auto. }
  assert (HS : forall t, should_shift (stack_toks r ++ [start]) t <> Panic "nonTerminals[len-1]"%string /\
                         forall s, should_shift (stack_toks r ++ [start]) t <> Panic s).
  { intros t. unfold should_shift. destruct (is TEOF t); [split; [|intros]; discriminate|].
    destruct (is TErr t); [split; [|intros]; discriminate|].
    destruct (stack_toks r ++ [start]) eqn:E; [destruct (stack_toks r); discriminate|].
    repeat match goal with |- context [if ?b then _ else _] => destruct b end; split; try intros; discriminate. }
  destruct p as [l|].
  - destruct (should_shift (stack_toks r ++ [start]) impl_and) as [[|]|s] eqn:SS.
    + cbn. reflexivity.
    + exact HR.
    + exfalso. eapply (proj2 (HS impl_and)); eauto.
  - destruct (is TEOF (hd eof tk) && Nat.eqb (List.length r) 1).
    + destruct r as [|[?|e] [|? ?]]; auto.
      destruct (is_leaf_op (e_op e) && negb (String.eqb df "")); auto.
      unfold eq_. destruct (expr_new_ret (VCol df) Equals [VExp e]) as [e' ->]; try (intros; discriminate). auto.
    + destruct (should_shift (stack_toks r ++ [start]) (hd eof tk)) as [[|]|s] eqn:SS.
      * destruct (is_terminal (hd eof tk)).
        -- destruct r as [|[?|?] ?]; cbn; reflexivity.
        -- cbn. reflexivity.
      * exact HR.
      * exfalso. eapply (proj2 (HS (hd eof tk))); eauto.
Qed.

(* ---- termination measure ---- *)
Definition mu (c : cfg) : nat := 4 * List.length (toks c) + List.length (rs c) + match pend c with Some _ => 3 | None => 0 end.

Lemma reduce_len : forall r top n r' n', reduce_loop o r top n df = ROk r' n' -> List.length r' + 1 <= List.length r + List.length top.
Proof.
  assert (RS : forall rd, In rd (reducers o) -> forall top ns top' ns', rd top ns df = Some (Ret (top', ns')) -> List.length top' < List.length top).
  { intros rd Hin top ns top' ns' H.
    unfold reducers in Hin. simpl in Hin.
    repeat (destruct Hin as [<-|Hin]); try contradiction.
    all: try (unfold r_and_or, r_equal, r_compare, r_compare_eq, r_sub, r_prefix, r_fuzzy, r_boost, r_range in H;
      repeat match type of H with
      | match ?x with _ => _ end = _ => destruct x eqn:?; try discriminate
      | (if ?x then _ else _) = _ => destruct x eqn:?; try discriminate
      | (let '(_, _) := ?x in _) = _ => destruct x eqn:?
      end;
      try (apply Some_inj in H;
        repeat match type of H with
        | bind ?x _ = Ret _ => destruct x eqn:?; cbn [bind] in H; try discriminate
        | (if ?x then _ else _) = _ => destruct x eqn:?
        end; inversion H; subst; cbn; lia)).
    unfold r_not in H.
    destruct (split_last2 top) as [[[p a] b]|] eqn:E; try discriminate.
    destruct a as [t|]; try discriminate. destruct b as [|x]; try discriminate.
    destruct (is TNot t); try discriminate.
    apply Some_inj in H.
    repeat match type of H with
        | bind ?x _ = Ret _ => destruct x eqn:?; cbn [bind] in H; try discriminate
        end.
    inversion H; subst. rewrite app_length. cbn.
    assert (Hl : forall (l : list item) p a b, split_last2 l = Some (p, a, b) -> List.length l = List.length p + 2).
    { clear. induction l as [|h l IH]; intros p a b E; [discriminate|].
      destruct l as [|y l]; [discriminate|]. destruct l as [|z l].
      - inversion E; subst. reflexivity.
      - change (split_last2 (h :: y :: z :: l)) with
          (match split_last2 (y :: z :: l) with Some (p0, a0, b0) => Some (h :: p0, a0, b0) | None => None end) in E.
        destruct (split_last2 (y :: z :: l)) as [[[p' a'] b']|] eqn:E'; try discriminate.
        inversion E; subst. specialize (IH p' a b eq_refl). cbn [List.length] in *. lia. }
    rewrite (Hl _ _ _ _ E). lia. }
  assert (TR : forall rds, (forall rd, In rd rds -> In rd (reducers o)) -> forall top ns top' ns',
    try_reducers rds top ns df = Some (Ret (top', ns')) -> List.length top' < List.length top).
  { induction rds as [|rd rds IH]; intros Hsub top ns top' ns' H; cbn in H; try discriminate.
    destruct (rd top ns df) eqn:E.
    - apply Some_inj in H. subst. eapply RS; eauto. apply Hsub; left; reflexivity.
    - eapply IH; eauto. intros. apply Hsub. right. assumption. }
  induction r as [|s r IH]; intros top n r' n' H; cbn [reduce_loop] in H; try discriminate.
  destruct (try_reducers (reducers o) (s :: top) n df) as [[[t m]|]|] eqn:E; try discriminate.
  - inversion H; subst.
    assert (Hra : forall (a b : list item), List.length (rev_append a b) = List.length a + List.length b).
    { clear. induction a; cbn; intros; auto. rewrite IHa. cbn. lia. }
    rewrite Hra. pose proof (TR _ (fun _ h => h) _ _ _ _ E). cbn in *. lia.
  - specialize (IH _ _ _ _ H). cbn in *. lia.
Qed.

Lemma step_mu c c' : step o df c = Next c' -> mu c' < mu c.
Proof.
  destruct c as [r n tk p]. unfold step, mu. cbn [pend ns rs toks].
  assert (HR : forall c', do_reduce o {| rs := r; ns := n; toks := tk; pend := p |} df = Next c' ->
     4 * List.length (toks c') + List.length (rs c') + match pend c' with Some _ => 3 | None => 0 end <
     4 * List.length tk + List.length r + match p with Some _ => 3 | None => 0 end).
  { intros c0. unfold do_reduce. cbn [rs ns toks pend].
    destruct (reduce_loop o r [] n df) eqn:E; try discriminate.
    intros H. inversion H; subst. cbn. pose proof (reduce_len _ _ _ _ _ E). cbn in *. lia. }
  destruct p as [l|].
  - destruct (should_shift n impl_and) as [[|]|s]; try discriminate.
    + intros H. inversion H; subst. cbn. lia.
    + apply HR.
  - destruct (is TEOF (hd eof tk) && Nat.eqb (List.length r) 1) eqn:EA.
    + destruct r as [|[?|e] [|? ?]]; try discriminate.
      destruct (is_leaf_op (e_op e) && negb (String.eqb df "")); try discriminate.
      destruct (eq_ (VCol df) (VExp e)); discriminate.
    + destruct (should_shift n (hd eof tk)) as [[|]|s] eqn:SS; try discriminate.
      * assert (Htk : tk <> []).
        { intros ->. cbn in SS. unfold should_shift in SS. cbn in SS. discriminate. }
        destruct tk as [|t0 tk']; [contradiction|]. cbn [hd tl].
        destruct (is_terminal t0).
        -- destruct r as [|[?|?] ?]; intros H; inversion H; subst; cbn; lia.
        -- intros H; inversion H; subst; cbn; lia.
      * apply HR.
Qed.

Theorem run_total : forall fuel c, Inv c -> mu c < fuel ->
  match run o fuel df c with PPanic _ => False | POutOfFuel => False | _ => True end.
Proof.
  induction fuel as [|f IH]; intros c HI Hm; [lia|].
  cbn [run]. pose proof (step_inv c HI) as HS.
  destruct (step o df c) as [c'| | |] eqn:E; auto.
  apply IH; auto. pose proof (step_mu _ _ E). lia.
Qed.

Theorem parse_total : forall ts, match parse_toks o df ts with PPanic _ => False | POutOfFuel => False | _ => True end.
Proof.
  intros ts. unfold parse_toks.
  pose proof (run_total (4 * List.length ts + 4) {| rs := []; ns := [start]; toks := ts; pend := None |}) as H.
  assert (HI : Inv {| rs := []; ns := [start]; toks := ts; pend := None |}) by reflexivity.
  specialize (H HI). unfold mu in H. cbn [toks rs pend List.length] in H.
  assert (Hlt : 4 * List.length ts + 0 + 0 < 4 * List.length ts + 4) by lia. specialize (H Hlt).
  destruct (run o (4 * List.length ts + 4) df _); auto.
  destruct (validate e); auto.
Qed.
Print Assumptions parse_total.

End T.
