(* C08 (escaping clause) for a BARE word, the property's own wording: any non-numeric text written as a bare word with a
   backslash before each special character denotes exactly that text as a plain (non-pattern) value - here as the whole query,
   without a field: Parse(esc(w)) is the plain string leaf w, for texts in any script (Spec/Escape.esc). *)
Require Import Parser ParserShape Printer ParserRoundTripV QuotePipeline EscapePipeline.
Require Lex LexField LexEscapeU Api QuoteText QuoteTextU.
From Coq Require Import List Ascii String ZArith NArith Bool Lia.
Import ListNotations.
Open Scope string_scope.

Theorem escaped_bare_tree (o : oracle) es w :
  atoi es = None ->
  match parse_float o es with Some f => is_nan_or_inf o f = true | None => True end ->
  contains_char "*"%char es = false -> contains_char "?"%char es = false ->
  remove_char "\"%char es = w ->
  parse_toks o "" [word_tok es; eof] = PTree (lit (VStr w)).
Proof.
  intros Ha Hfl Hs Hq Hr.
  pose proof (printed_tree_parses o (QTerm (word_tok es))) as R.
  cbn [pr want app] in R. rewrite R; [|cbn [wfq]; repeat split; auto].
  rewrite (parse_literal_escaped o es w Ha Hfl Hs Hq Hr). reflexivity.
Qed.

Section L.
Variable cl : Lex.classes.
Hypothesis dq_not_alnum : Lex.is_letter cl 34 = false /\ Lex.is_digit cl 34 = false.
Hypothesis colon_not_alnum : Lex.is_letter cl 58 = false /\ Lex.is_digit cl 58 = false.
Hypothesis backslash_not_alnum : Lex.is_letter cl 92 = false /\ Lex.is_digit cl 92 = false.
Hypothesis ws_not_alnum : forall r, Lex.is_space r = true -> Lex.is_alnum cl r = false.
Hypothesis error_not_alnum : Lex.is_alnum cl Lex.rune_error = false.

Lemma lex_escaped_bare d0 w : Lex.word_type (Escape.esc cl (d0 :: w)) = TLiteral ->
  Lex.lex cl (Escape.esc cl (d0 :: w)) = [ {| Lex.typ := TLiteral; Lex.val := Escape.esc cl (d0 :: w) |}; Lex.eof_tok ].
Proof.
  intros Hty. unfold Lex.lex.
  pose proof (LexEscapeU.esc_length cl dq_not_alnum colon_not_alnum backslash_not_alnum ws_not_alnum error_not_alnum (List.length (d0 :: w)) (d0 :: w) (le_n _)) as L.
  fold (Escape.esc cl (d0 :: w)) in L.
  destruct (List.length (Escape.esc cl (d0 :: w))) as [|n] eqn:En; [cbn [List.length] in L; lia|].
  cbn [Lex.lex_all]. rewrite (LexEscapeU.next_esc cl dq_not_alnum colon_not_alnum backslash_not_alnum ws_not_alnum error_not_alnum d0 w).
  cbn [Lex.typ]. rewrite Hty. reflexivity.
Qed.
End L.

Theorem parse_of_escaped_bare_word :
  forall (o : oracle) (cl : Lex.classes),
  Lex.is_letter cl 34%N = false /\ Lex.is_digit cl 34%N = false ->
  Lex.is_letter cl 58%N = false /\ Lex.is_digit cl 58%N = false ->
  Lex.is_letter cl 92%N = false /\ Lex.is_digit cl 92%N = false ->
  (forall r, Lex.is_space r = true -> Lex.is_alnum cl r = false) ->
  Lex.is_alnum cl Lex.rune_error = false ->
  forall (d0 : ascii) (w : list ascii),
  Lex.word_type (Escape.esc cl (d0 :: w)) = TLiteral ->
  forallb (fun c => negb (Ascii.eqb c "\"%char)) (d0 :: w) = true ->
  let ws := string_of_list_ascii (d0 :: w) in let es := string_of_list_ascii (Escape.esc cl (d0 :: w)) in
  contains_char "*"%char ws = false -> contains_char "?"%char ws = false ->
  atoi es = None -> match parse_float o es with Some x => is_nan_or_inf o x = true | None => True end ->
  Api.parse o cl "" es = PTree (lit (VStr ws)).
Proof.
  intros o cl Hq Hc Hb Hws Her d0 w He Hnb ws es Hs Hqm Hat Hfl.
  assert (Rm : remove_char "\"%char es = ws) by (apply (QuoteTextU.esc_u_remove cl); [apply le_n|exact Hnb]).
  assert (Cs : contains_char "*"%char es = false) by (unfold es, Escape.esc; rewrite (QuoteTextU.esc_u_contains cl "*"%char eq_refl) by apply le_n; exact Hs).
  assert (Cq : contains_char "?"%char es = false) by (unfold es, Escape.esc; rewrite (QuoteTextU.esc_u_contains cl "?"%char eq_refl) by apply le_n; exact Hqm).
  unfold Api.parse, Api.lex_tokens, es. rewrite QuoteText.los_sola.
  rewrite (lex_escaped_bare cl Hq Hc Hb Hws Her d0 w He). cbn [map]. unfold Api.tok_of. cbn [Lex.typ Lex.val].
  exact (escaped_bare_tree o es ws Hat Hfl Cs Cq Rm).
Qed.
Print Assumptions parse_of_escaped_bare_word.
