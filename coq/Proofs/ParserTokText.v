(* C09 (keyword case) at the level of the parser: the text of a token that is not a term (AND, OR, NOT, TO, brackets, colon,
   comparison and prefix operators, ~ ^) plays no role - the parser reads only its TYPE. Two token lists that agree in every
   token type and in the text of every term token (Literal, Quoted, Regexp; also EOF and Error) give the same result of the
   shift-reduce loop and of parse_toks: same tree, same rejection, step for step. With C09_keyword_case (the type of a word does
   not depend on its letter case) this carries the keyword-case clause from single words to whole queries. *)
Require Import Parser.
From Coq Require Import List String ZArith Bool Lia Arith.
Import ListNotations.
Open Scope string_scope.

Definition canon_val (ty : toktype) : string := match ty with TAnd => "AND" | _ => "" end.
Definition nz (t : token) : token := if is_terminal t then t else {| typ := typ t; val := canon_val (typ t) |}.
Definition nzi (i : item) : item := match i with ITok t => ITok (nz t) | IExp e => IExp e end.

Lemma typ_nz t : typ (nz t) = typ t. Proof. unfold nz. destruct (is_terminal t); reflexivity. Qed.
Lemma is_nz k t : is k (nz t) = is k t. Proof. unfold is. rewrite typ_nz. reflexivity. Qed.
Lemma is_terminal_nz t : is_terminal (nz t) = is_terminal t. Proof. unfold is_terminal. rewrite typ_nz. reflexivity. Qed.
Lemma nz_terminal t : is_terminal t = true -> nz t = t. Proof. unfold nz. intros ->. reflexivity. Qed.
Lemma nz_eof : nz eof = eof. Proof. reflexivity. Qed.
Lemma nz_impl : nz impl_and = impl_and. Proof. reflexivity. Qed.
Lemma nz_start : nz start = start. Proof. reflexivity. Qed.

Definition pmap (x : out (list item * list token)) : out (list item * list token) :=
  match x with Ret (a, b) => Ret (map nzi a, map nz b) | Panic p => Panic p end.

Lemma drop_nz n (l : list token) : drop n (map nz l) = match drop n l with Ret r => Ret (map nz r) | Panic p => Panic p end.
Proof. unfold drop. rewrite map_length. destruct (n <=? List.length l)%nat; [rewrite skipn_map|]; reflexivity. Qed.

Section K.
Variable o : oracle.

Ltac binds :=
  repeat (rewrite drop_nz);
  repeat match goal with |- context [drop ?n ?l] => destruct (drop n l) end;
  cbn [bind pmap option_map map nzi];
  repeat match goal with
  | |- context [bind ?x _] => destruct x; cbn [bind pmap option_map map nzi]; try reflexivity
  end; try reflexivity.
Ltac conds := repeat rewrite is_nz; repeat match goal with |- context [if ?b then _ else _] => destruct b; cbn [option_map pmap]; try reflexivity end.
Ltac shape top := repeat (destruct top as [|[?|?] top]; cbn [map nzi option_map]; try reflexivity).

Definition commutes (r : red) : Prop :=
  forall top nts df, r (map nzi top) (map nz nts) df = option_map pmap (r top nts df).

Lemma and_or_nz which mk : commutes (r_and_or which mk).
Proof. intros top nts df. unfold r_and_or. shape top. rewrite is_nz. destruct (is which t); [|reflexivity]. cbn [option_map]. f_equal. binds. Qed.

Lemma equal_nz : commutes r_equal.
Proof.
  intros top nts df. unfold r_equal. shape top. rewrite !is_nz. destruct (is TEqual t || is TColon t); [|reflexivity].
  destruct (chained_or_literals df e0) as [lits ok]. cbn [option_map]. f_equal.
  destruct (ok && (1 <? List.length lits)%nat); binds.
Qed.

Lemma compare_nz : commutes r_compare.
Proof.
  intros top nts df. unfold r_compare. shape top. rewrite !is_nz.
  destruct (is TColon t && (is TGreater t0 || is TLess t0)); [|reflexivity]. cbn [option_map]. f_equal. binds.
Qed.

Lemma compare_eq_nz : commutes r_compare_eq.
Proof.
  intros top nts df. unfold r_compare_eq. shape top. rewrite !is_nz.
  destruct (is TColon t && (is TGreater t0 || is TLess t0) && is TEqual t1); [|reflexivity]. cbn [option_map]. f_equal. binds.
Qed.

Lemma split_last2_3 {A} (x y z : A) r :
  split_last2 (x :: y :: z :: r) = match split_last2 (y :: z :: r) with Some (p, a, b) => Some (x :: p, a, b) | None => None end.
Proof. reflexivity. Qed.

Lemma split_last2_nz : forall top,
  split_last2 (map nzi top) = match split_last2 top with Some (p, a, b) => Some (map nzi p, nzi a, nzi b) | None => None end.
Proof.
  induction top as [|x top IH]; [reflexivity|]. destruct top as [|y top]; [reflexivity|]. destruct top as [|z top]; [reflexivity|].
  cbn [map]. rewrite !split_last2_3. cbn [map] in IH. rewrite IH.
  destruct (split_last2 (y :: z :: top)) as [[[p a] b]|]; reflexivity.
Qed.

Lemma not_nz : commutes r_not.
Proof.
  intros top nts df. unfold r_not. rewrite split_last2_nz.
  destruct (split_last2 top) as [[[pre a] b]|]; [|reflexivity].
  destruct a as [t|e]; cbn [nzi]; [|reflexivity]. destruct b as [t'|x]; cbn [nzi]; [reflexivity|].
  rewrite is_nz. destruct (is TNot t); [|reflexivity]. cbn [option_map]. f_equal. binds.
  rewrite map_app. reflexivity.
Qed.

Lemma sub_nz : commutes r_sub.
Proof.
  intros top nts df. unfold r_sub. shape top. rewrite !is_nz.
  destruct (is TLParen t && is TRParen t0); [|reflexivity]. cbn [option_map]. f_equal. binds.
Qed.

Lemma prefix_nz which mk : commutes (r_prefix which mk).
Proof. intros top nts df. unfold r_prefix. shape top. rewrite is_nz. destruct (is which t); [|reflexivity]. cbn [option_map]. f_equal. binds. Qed.

Lemma fuzzy_nz : commutes r_fuzzy.
Proof.
  intros top nts df. unfold r_fuzzy. shape top; rewrite is_nz; destruct (is TTilde t); try reflexivity.
  - cbn [option_map]. f_equal. binds.
  - destruct (e_left e0); try reflexivity. destruct (e_op e0); try reflexivity. cbn [option_map]. f_equal. binds.
Qed.

Lemma boost_nz : commutes (r_boost o).
Proof.
  intros top nts df. unfold r_boost. shape top; rewrite is_nz; destruct (is TCarrot t); try reflexivity.
  - cbn [option_map]. f_equal. binds.
  - destruct (to_positive_float o e0); [|reflexivity]. cbn [option_map]. f_equal. binds.
Qed.

Lemma range_nz : commutes r_range.
Proof.
  intros top nts df. unfold r_range. shape top. rewrite !is_nz.
  destruct (is TColon t && (is TLSquare t0 || is TLCurly t0) && (is TRSquare t2 || is TRCurly t2) && is TTO t1); [|reflexivity].
  cbn [option_map]. f_equal. binds.
Qed.
End K.

Section K2.
Variable o : oracle.

Lemma reducers_commute : Forall commutes (reducers o).
Proof.
  unfold reducers.
  repeat (constructor; [first [apply and_or_nz | apply equal_nz | apply compare_nz | apply compare_eq_nz | apply not_nz | apply sub_nz
                              | apply prefix_nz | apply fuzzy_nz | apply boost_nz | apply range_nz]|]).
  constructor.
Qed.

Lemma try_nz rs : Forall commutes rs -> forall top nts df,
  try_reducers rs (map nzi top) (map nz nts) df = option_map pmap (try_reducers rs top nts df).
Proof.
  induction 1 as [|r rs Hr _ IH]; intros top nts df; cbn [try_reducers]; [reflexivity|].
  rewrite (Hr top nts df). destruct (r top nts df); cbn [option_map]; [reflexivity|apply IH].
Qed.

Definition rmap (r : rres) : rres := match r with ROk a b => ROk (map nzi a) (map nz b) | x => x end.

Lemma rev_append_map {A B} (f : A -> B) a b : rev_append (map f a) (map f b) = map f (rev_append a b).
Proof. rewrite !rev_append_rev, map_app, map_rev. reflexivity. Qed.

Lemma reduce_loop_nz : forall rstack top nts df,
  reduce_loop o (map nzi rstack) (map nzi top) (map nz nts) df = rmap (reduce_loop o rstack top nts df).
Proof.
  induction rstack as [|a rest IH]; intros top nts df; cbn [reduce_loop map]; [reflexivity|].
  change (nzi a :: map nzi top) with (map nzi (a :: top)). rewrite (try_nz _ reducers_commute).
  destruct (try_reducers (reducers o) (a :: top) nts df) as [[[top' nts']|p]|]; cbn [option_map pmap rmap].
  - rewrite rev_append_map. reflexivity.
  - reflexivity.
  - apply IH.
Qed.

Lemma should_shift_nz nts next : should_shift (map nz nts) (nz next) = should_shift nts next.
Proof.
  unfold should_shift. rewrite !is_nz. destruct nts as [|c nts]; cbn [map]; [reflexivity|].
  rewrite is_terminal_nz. unfold any_open_bracket. rewrite !is_nz. unfold has_less_precedence. rewrite !typ_nz. reflexivity.
Qed.

Definition ncfg (c : cfg) : cfg := {| rs := map nzi (rs c); ns := map nz (ns c); toks := map nz (toks c); pend := pend c |}.
Definition resmap (r : res) : res := match r with Next c => Next (ncfg c) | x => x end.

Lemma do_reduce_nz c df : do_reduce o (ncfg c) df = resmap (do_reduce o c df).
Proof.
  unfold do_reduce. cbn [ncfg rs ns toks pend]. change (@nil item) with (map nzi []) at 1. rewrite reduce_loop_nz.
  destruct (reduce_loop o (rs c) [] (ns c) df); reflexivity.
Qed.

Lemma hd_nz l : hd eof (map nz l) = nz (hd eof l). Proof. destruct l; reflexivity. Qed.
Lemma tl_map {A B} (f : A -> B) l : tl (map f l) = map f (tl l). Proof. destruct l; reflexivity. Qed.

Lemma step_nz df c : step o df (ncfg c) = resmap (step o df c).
Proof.
  unfold step. cbn [ncfg rs ns toks pend]. destruct (pend c) as [l|].
  - change impl_and with (nz impl_and) at 1. rewrite should_shift_nz.
    destruct (should_shift (ns c) impl_and) as [[|]|p]; [reflexivity|apply do_reduce_nz|reflexivity].
  - rewrite hd_nz, is_nz, map_length.
    destruct (is TEOF (hd eof (toks c)) && (List.length (rs c) =? 1)%nat).
    + destruct (rs c) as [|[t|e] [|i r]]; cbn [map nzi]; try reflexivity.
      destruct (is_leaf_op (e_op e) && negb (String.eqb df "")); [|reflexivity].
      destruct (eq_ (VCol df) (VExp e)); reflexivity.
    + rewrite should_shift_nz. destruct (should_shift (ns c) (hd eof (toks c))) as [[|]|p]; [|apply do_reduce_nz|reflexivity].
      rewrite is_terminal_nz. destruct (is_terminal (hd eof (toks c))) eqn:T.
      * rewrite (nz_terminal _ T). rewrite tl_map. destruct (rs c) as [|[t|e] r]; reflexivity.
      * rewrite tl_map. reflexivity.
Qed.

Lemma run_nz df : forall f c, run o f df (ncfg c) = run o f df c.
Proof.
  induction f as [|f IH]; intros c; cbn [run]; [reflexivity|]. rewrite step_nz.
  destruct (step o df c); cbn [resmap]; auto.
Qed.

Lemma parse_toks_nz df ts : parse_toks o df (map nz ts) = parse_toks o df ts.
Proof.
  unfold parse_toks. rewrite map_length.
  change {| rs := []; ns := [start]; toks := map nz ts; pend := None |} with (ncfg {| rs := []; ns := [start]; toks := ts; pend := None |}).
  rewrite run_nz. reflexivity.
Qed.

(* tokens that agree in type, and in text where the token is a term (or EOF / Error), are the same token for the parser *)
Definition same_for_parser (t t' : token) : Prop := typ t = typ t' /\ (is_terminal t = true -> val t = val t').

Lemma nz_same t t' : same_for_parser t t' -> nz t = nz t'.
Proof.
  intros [Ht Hv]. unfold nz. assert (E : is_terminal t' = is_terminal t) by (unfold is_terminal; rewrite Ht; reflexivity). rewrite E.
  destruct (is_terminal t) eqn:T; [|rewrite Ht; reflexivity].
  destruct t as [ty v], t' as [ty' v']. cbn in *. rewrite Ht, (Hv eq_refl). reflexivity.
Qed.

Theorem token_text_is_irrelevant_outside_terms df ts ts' :
  Forall2 same_for_parser ts ts' -> parse_toks o df ts = parse_toks o df ts'.
Proof.
  intros H. rewrite <- (parse_toks_nz df ts), <- (parse_toks_nz df ts'). f_equal.
  induction H as [|t t' ts ts' Ht _ IH]; cbn [map]; [reflexivity|]. rewrite (nz_same t t' Ht), IH. reflexivity.
Qed.
End K2.
Print Assumptions token_text_is_irrelevant_outside_terms.
