(* C02 for the parameterized rendering of a fragment tree (Spec/SqlFragP.trp): the expression PostgreSQL reads is built from the
   allowed constructs only, and every column reference in it is a field name of the query. (That it holds no constant at all is
   Proofs/SqlProvenanceP.v.) *)
Require Import Parser ParserShape Render PgModel QuerySem SqlSem SqlFrag SqlFragP SqlSemProof SqlProvenance.
From Coq Require Import List Ascii String ZArith Bool Lia Arith.
Import ListNotations.

Lemma param_asts_allowed : forall n k, forallb allowed (param_asts k n) = true.
Proof. induction n as [|n IH]; intros k; cbn [param_asts forallb allowed andb]; [reflexivity|apply IH]. Qed.
Lemma param_asts_cols : forall n k, flat_map cols_of (param_asts k n) = [].
Proof. induction n as [|n IH]; intros k; cbn [param_asts flat_map cols_of app]; [reflexivity|apply IH]. Qed.

Lemma col_of_field l op rt b fz f c : field_of l = Some f -> c = str f \/ False -> exists f0, In f0 (fields_of (E l op rt b fz)) /\ c = str f0.
Proof. intros Fl [->|[]]. exists f. split; [|reflexivity]. cbn [fields_of]. rewrite (field_of_fields l f Fl). left. reflexivity. Qed.

Theorem trp_confined_sz : forall n e, esize e <= n -> forall k ts a ps, trp e k = Some (ts, a, ps) ->
  allowed a = true /\ (forall c, In c (cols_of a) -> exists f, In f (fields_of e) /\ c = str f).
Proof.
  induction n as [|n IH]; intros e Hn k ts a ps T; [destruct e; cbn in Hn; lia|].
  destruct e as [l op rt b fz]. cbn [esize] in Hn. cbn [trp] in T.
  destruct op; try discriminate.
  - destruct l as [ |?|?|?|?|?|x|?|? ? ?]; try discriminate. destruct rt as [ |?|?|?|?|?|y|?|? ? ?]; try discriminate.
    destruct (trp x k) as [[[tx ax] px]|] eqn:Tx; [|discriminate]. destruct (trp y (k + List.length px)) as [[[ty ay] py]|] eqn:Ty; [|discriminate].
    injection T as <- <- <-. cbn [vsize] in Hn.
    destruct (IH x ltac:(lia) k tx ax px Tx) as [Ax Cx]. destruct (IH y ltac:(lia) _ ty ay py Ty) as [Ay Cy]. split; [apply allowed_mk_and; assumption|].
    intros c H. apply cols_mk_and in H. cbn [fields_of fields_v]. destruct H as [H|H]; [destruct (Cx c H) as [f [Hf Eq0]]|destruct (Cy c H) as [f [Hf Eq0]]];
      exists f; (split; [apply in_app_iff; auto|exact Eq0]).
  - destruct l as [ |?|?|?|?|?|x|?|? ? ?]; try discriminate. destruct rt as [ |?|?|?|?|?|y|?|? ? ?]; try discriminate.
    destruct (trp x k) as [[[tx ax] px]|] eqn:Tx; [|discriminate]. destruct (trp y (k + List.length px)) as [[[ty ay] py]|] eqn:Ty; [|discriminate].
    injection T as <- <- <-. cbn [vsize] in Hn.
    destruct (IH x ltac:(lia) k tx ax px Tx) as [Ax Cx]. destruct (IH y ltac:(lia) _ ty ay py Ty) as [Ay Cy]. split; [apply allowed_mk_or; assumption|].
    intros c H. apply cols_mk_or in H. cbn [fields_of fields_v]. destruct H as [H|H]; [destruct (Cx c H) as [f [Hf Eq0]]|destruct (Cy c H) as [f [Hf Eq0]]];
      exists f; (split; [apply in_app_iff; auto|exact Eq0]).
  - destruct (field_of l) as [f|] eqn:Fl; [|discriminate]. destruct rt as [ |?|?|?|?|?|lf|?|? ? ?]; try discriminate. cbn [cmp_text] in T.
    destruct (const_param lf); [|discriminate]. injection T as <- <- <-. split; [reflexivity|]. intros c H. cbn [cols_of app In] in H. apply (col_of_field _ _ _ _ _ f c Fl). destruct H as [<-|[]]. left; reflexivity.
  - destruct (field_of l) as [f|] eqn:Fl; [|discriminate]. destruct rt as [ |?|?|?|?|?|p|?|? ? ?]; try discriminate. destruct p as [l2 op2 r2 b2 f2].
    destruct l2; try discriminate; destruct op2; try discriminate; destruct r2; try discriminate.
    match goal with T : context [is_regex_text ?p] |- _ => destruct (is_regex_text p); [discriminate|] end. injection T as <- <- <-. split; [reflexivity|].
    intros c H. cbn [cols_of app In] in H. apply (col_of_field _ _ _ _ _ f c Fl). destruct H as [<-|[]]. left; reflexivity.
  - destruct l as [ |?|?|?|?|?|x|?|? ? ?]; try discriminate. destruct rt; try discriminate.
    destruct (trp x k) as [[[tx ax] px]|] eqn:Tx; [|discriminate]. injection T as <- <- <-. cbn [vsize] in Hn.
    destruct (IH x ltac:(lia) k tx ax px Tx) as [Ax Cx]. split; [exact Ax|]. intros c H. cbn [cols_of] in H. destruct (Cx c H) as [f [Hf Eq0]].
    exists f. split; [cbn [fields_of fields_v]; rewrite app_nil_r; exact Hf|exact Eq0].
  - destruct (field_of l) as [f|] eqn:Fl; [|discriminate]. destruct rt as [ |?|?|?|?|?|?|?|lo hi incl]; try discriminate. cbv zeta in T.
    destruct (int_bound lo); destruct (int_bound hi); destruct (is_star lo); destruct (is_star hi); try discriminate; injection T as <- <- <-;
      (split; [destruct incl; reflexivity|intros c H; cbn [cols_of flat_map app In] in H; apply (col_of_field _ _ _ _ _ f c Fl);
         repeat (destruct H as [<-|H]; [left; reflexivity|]); contradiction]).
  - destruct l as [ |?|?|?|?|?|x|?|? ? ?]; try discriminate. destruct rt; try discriminate. cbn [vsize] in Hn.
    destruct (IH x ltac:(lia) k ts a ps T) as [Ax Cx]. split; [exact Ax|]. intros c H. destruct (Cx c H) as [f [Hf Eq0]].
    exists f. split; [cbn [fields_of fields_v]; rewrite app_nil_r; exact Hf|exact Eq0].
  - destruct l as [ |?|?|?|?|?|x|?|? ? ?]; try discriminate. destruct rt; try discriminate.
    destruct (trp x k) as [[[tx ax] px]|] eqn:Tx; [|discriminate]. injection T as <- <- <-. cbn [vsize] in Hn.
    destruct (IH x ltac:(lia) k tx ax px Tx) as [Ax Cx]. split; [exact Ax|]. intros c H. cbn [cols_of] in H. destruct (Cx c H) as [f [Hf Eq0]].
    exists f. split; [cbn [fields_of fields_v]; rewrite app_nil_r; exact Hf|exact Eq0].
  - destruct (field_of l) as [f|] eqn:Fl; [|discriminate]. destruct rt as [ |?|?|?|?|?|lf|?|? ? ?]; try discriminate. cbn [cmp_text] in T.
    destruct (const_param lf); [|discriminate]. injection T as <- <- <-. split; [reflexivity|]. intros c H. cbn [cols_of app In] in H. apply (col_of_field _ _ _ _ _ f c Fl). destruct H as [<-|[]]. left; reflexivity.
  - destruct (field_of l) as [f|] eqn:Fl; [|discriminate]. destruct rt as [ |?|?|?|?|?|lf|?|? ? ?]; try discriminate. cbn [cmp_text] in T.
    destruct (const_param lf); [|discriminate]. injection T as <- <- <-. split; [reflexivity|]. intros c H. cbn [cols_of app In] in H. apply (col_of_field _ _ _ _ _ f c Fl). destruct H as [<-|[]]. left; reflexivity.
  - destruct (field_of l) as [f|] eqn:Fl; [|discriminate]. destruct rt as [ |?|?|?|?|?|lf|?|? ? ?]; try discriminate. cbn [cmp_text] in T.
    destruct (const_param lf); [|discriminate]. injection T as <- <- <-. split; [reflexivity|]. intros c H. cbn [cols_of app In] in H. apply (col_of_field _ _ _ _ _ f c Fl). destruct H as [<-|[]]. left; reflexivity.
  - destruct (field_of l) as [f|] eqn:Fl; [|discriminate]. destruct rt as [ |?|?|?|?|?|lf|?|? ? ?]; try discriminate. cbn [cmp_text] in T.
    destruct (const_param lf); [|discriminate]. injection T as <- <- <-. split; [reflexivity|]. intros c H. cbn [cols_of app In] in H. apply (col_of_field _ _ _ _ _ f c Fl). destruct H as [<-|[]]. left; reflexivity.
  - destruct (field_of l) as [f|] eqn:Fl; [|discriminate]. destruct rt as [ |?|?|?|?|?|p|?|? ? ?]; try discriminate. destruct p as [l2 op2 r2 b2 f2].
    destruct l2 as [ |?|?|?|?|?|?|lits|? ? ?]; try discriminate. destruct lits as [|x lits]; try discriminate.
    destruct op2; try discriminate; destruct r2; try discriminate.
    destruct (consts_param (x :: lits)) as [vs|] eqn:C; [|discriminate]. injection T as <- <- <-. split.
    + cbn [allowed andb]. apply param_asts_allowed.
    + intros c H. cbn [cols_of] in H. rewrite param_asts_cols, app_nil_r in H. apply (col_of_field _ _ _ _ _ f c Fl). destruct H as [<-|[]]. left; reflexivity.
Qed.

Theorem trp_confined e ts a ps : trp e 1 = Some (ts, a, ps) ->
  allowed a = true /\ (forall c, In c (cols_of a) -> exists f, In f (fields_of e) /\ c = str f).
Proof. intros T. apply (trp_confined_sz (esize e) e (le_n _) 1 ts a ps T). Qed.
