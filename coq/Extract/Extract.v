(* Extraction of the executable model and specification functions to OCaml (ExtrOcamlBasic + ExtrOcamlString;
   Z, N, positive and nat stay inductive; one Extract Constant, for List.rev, below). Depends on gen/, Model/ and Spec/ only, never on
   Proofs/ or Props/, so the correspondence check and the search still run when a proof no longer checks. *)
Require Import Tables Parser Render Decode Driver Api PgModel.
Require Lex.
Require Import Shape Build Printer Scope Count Guard DecodedShape QuerySem SqlSem Probes Cst Inferable SameKind SqlFrag SqlFragP Escape.
Require Extraction.
Require Import ExtrOcamlBasic ExtrOcamlString.
Extraction Blacklist List String Lex Parser Printf.
(* The one Extract Constant of the development: the standard library's List.rev (rev l ++ [x], quadratic) runs as OCaml's
   own linear List.rev on the extracted (native) list type. Same function; without it a 64 KB quoted value costs 2*10^9
   steps per lexer call. Listed in the trusted base (DESIGN.md). *)
Extract Constant List.rev => "Stdlib.List.rev".
Extraction "model.ml"
  Tables.toktype_order Tables.operator_order Tables.reducer_order Tables.symbols Tables.terminal_tokens
  Tables.from_string Tables.to_string Tables.validators Tables.renderers Tables.shared_fns Tables.postgres_own_fns
  Lex.lex Lex.next_token Lex.decode_rune Lex.linit Lex.lnext Lex.lpeek
  Parser.parse_toks Parser.parse_literal Parser.validate Parser.prec
  Render.str_e Render.render Render.render_param Render.marshal_e Render.pg_fn
  Decode.decode
  Driver.render_with Driver.render_tr Driver.postorder Driver.missing Driver.has_fb
  Api.lex_tokens Api.parse Api.to_postgres Api.to_param_postgres
  PgModel.pg_lex PgModel.pg_parse PgModel.pg_read
  Shape.wf Printer.pr Printer.want Scope.scope Scope.clean Count.qcnt Guard.gok DecodedShape.dsh
  QuerySem.qsem QuerySem.leaf_const QuerySem.q_of_float_bits QuerySem.field_of QuerySem.is_star QuerySem.wild_match
  SqlSem.ssem SqlSem.sim_match SqlSem.q_of_decimal Probes.num_probes Probes.q_lt Probes.q_eq Cst.cst_e Inferable.ki_b SameKind.sk_e SqlFrag.tr SqlFrag.side SqlFrag.text_ok SqlFrag.names_ok SqlFragP.trp SqlFragP.number_placeholders Escape.esc.
