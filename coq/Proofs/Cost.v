(* C01, the cost clause as far as the model can carry it: the work of Parse is linear in the input length, counted in the units
   of the model - calls of Next (one per token) and iterations of the shift-reduce loop. The lexer returns at most |s|+1 tokens
   (every Next consumes at least one byte or ends the stream: LexFuel), and the loop decides within 4n+4 iterations for n tokens
   (ParserTotal), hence within 4|s|+8 iterations for an input of |s| bytes. What one iteration and one Next cost in the
   implementation (the reducers scan a bounded window of the stack; Go strings and fmt) is measured by the observer, not proved. *)
Require Import Parser ParserTotal.
Require Lex LexFuel Api.
From Coq Require Import List Ascii String ZArith NArith Bool Arith Lia.
Import ListNotations.

Lemma lex_all_length cl : forall f s, List.length (Lex.lex_all cl f s) <= f.
Proof.
  induction f as [|f IH]; intros s; [cbn; lia|]. cbn [Lex.lex_all].
  destruct (Lex.next_token cl s) as [t rest]. specialize (IH rest).
  destruct (Lex.typ t); cbn [List.length]; lia.
Qed.

Lemma los_length s : List.length (list_ascii_of_string s) = String.length s.
Proof. induction s as [|c s IH]; cbn; [reflexivity|rewrite IH; reflexivity]. Qed.

Theorem tokens_linear cl s : List.length (Api.lex_tokens cl s) <= S (String.length s).
Proof. unfold Api.lex_tokens, Lex.lex. rewrite map_length, <- los_length. apply lex_all_length. Qed.

Lemma run_mono o df : forall f c k, run o f df c <> POutOfFuel -> run o (f + k) df c = run o f df c.
Proof.
  induction f as [|f IH]; intros c k H; [cbn in H; congruence|]. cbn [run Nat.add] in *.
  destruct (step o df c); try reflexivity. apply IH, H.
Qed.

(* the shift-reduce loop, given 4|s|+8 iterations, decides every input of |s| bytes - and decides it as Parse does *)
Theorem parse_steps_linear (o : oracle) (cl : Lex.classes) (df s : string) :
  let c0 := {| rs := []; ns := [start]; toks := Api.lex_tokens cl s; pend := None |} in
  run o (4 * String.length s + 8) df c0 <> POutOfFuel /\
  Api.parse o cl df s = match run o (4 * String.length s + 8) df c0 with PTree e => if validate e then PTree e else PErr | r => r end.
Proof.
  intros c0. pose proof (tokens_linear cl s) as L. pose proof (parse_total o df (Api.lex_tokens cl s)) as T.
  unfold Api.parse, parse_toks in *. fold c0 in T |- *.
  set (n := List.length (Api.lex_tokens cl s)) in *.
  assert (NF : run o (4 * n + 4) df c0 <> POutOfFuel).
  { intros E. rewrite E in T. exact T. }
  replace (4 * String.length s + 8) with ((4 * n + 4) + (4 * (S (String.length s) - n))) by lia.
  rewrite (run_mono o df _ c0 _ NF). split; [exact NF|reflexivity].
Qed.
Print Assumptions tokens_linear.
Print Assumptions parse_steps_linear.
