// Oracle server: answers questions about the Go standard library, one per line.
package main

import (
	"bufio"
	"encoding/hex"
	"encoding/json"
	"fmt"
	"math"
	"os"
	"strconv"
	"strings"
	"unicode"
	"unicode/utf8"
)

func main() {
	in := bufio.NewReader(os.Stdin)
	out := bufio.NewWriter(os.Stdout)
	for {
		line, err := in.ReadString('\n')
		if err != nil {
			return
		}
		line = strings.TrimRight(line, "\n")
		f := strings.SplitN(line, " ", 2)
		arg := ""
		if len(f) > 1 {
			arg = f[1]
		}
		switch f[0] {
		case "L":
			n, _ := strconv.ParseInt(arg, 10, 64)
			fmt.Fprintln(out, b2i(unicode.IsLetter(rune(n))))
		case "D":
			n, _ := strconv.ParseInt(arg, 10, 64)
			fmt.Fprintln(out, b2i(unicode.IsDigit(rune(n))))
		case "S":
			n, _ := strconv.ParseInt(arg, 10, 64)
			fmt.Fprintln(out, b2i(unicode.IsSpace(rune(n))))
		case "F": // ParseFloat(hex string)
			b, _ := hex.DecodeString(arg)
			v, err := strconv.ParseFloat(string(b), 64)
			if err != nil {
				fmt.Fprintln(out, "err")
			} else {
				fmt.Fprintf(out, "ok %d\n", int64(math.Float64bits(v)))
			}
		case "P": // properties of a float: naninf pos
			n, _ := strconv.ParseInt(arg, 10, 64)
			v := math.Float64frombits(uint64(n))
			fmt.Fprintf(out, "%d %d\n", b2i(math.IsNaN(v) || math.IsInf(v, 0)), b2i(v > 0))
		case "I": // float64(int)
			n, _ := strconv.ParseInt(arg, 10, 64)
			fmt.Fprintln(out, int64(math.Float64bits(float64(n))))
		case "V", "2", "1": // %v %.2f %.1f
			n, _ := strconv.ParseInt(arg, 10, 64)
			v := math.Float64frombits(uint64(n))
			format := map[string]string{"V": "%v", "2": "%.2f", "1": "%.1f"}[f[0]]
			fmt.Fprintln(out, hex.EncodeToString([]byte(fmt.Sprintf(format, v))))
		case "U": // utf8.ValidString
			b, _ := hex.DecodeString(arg)
			fmt.Fprintln(out, b2i(utf8.ValidString(string(b))))
		case "Q": // strconv.Quote
			b, _ := hex.DecodeString(arg)
			fmt.Fprintln(out, hex.EncodeToString([]byte(strconv.Quote(string(b)))))
		case "J": // json string encoding
			b, _ := hex.DecodeString(arg)
			j, _ := json.Marshal(string(b))
			fmt.Fprintln(out, hex.EncodeToString(j))
		case "N": // json number encoding
			n, _ := strconv.ParseInt(arg, 10, 64)
			j, err := json.Marshal(math.Float64frombits(uint64(n)))
			if err != nil {
				fmt.Fprintln(out, "err")
			} else {
				fmt.Fprintln(out, hex.EncodeToString(j))
			}
		default:
			fmt.Fprintln(out, "?")
		}
		out.Flush()
	}
}

func b2i(b bool) int {
	if b {
		return 1
	}
	return 0
}
