"""C14: pure, deterministic, safe for concurrent use. Level 'other': what a Gallina model can carry (the sequential behaviour
is a function of the arguments: the model, tied by the correspondence) is checked by the other properties' machinery; data
races, mutation of shared expressions and state leaking between calls are probed here under the race detector."""
import os, json, time, subprocess, re, glob
from propspec import PROPS

REPO_PATH = '/repo'


def global_writes(repo):
    """Syntactic check: package-level variables of the library and assignments to them outside their declaration."""
    findings = []
    files = [f for f in glob.glob(repo + '/*.go') + glob.glob(repo + '/internal/lex/*.go') + glob.glob(repo + '/pkg/*/*.go') + glob.glob(repo + '/pkg/lucene/*/*.go')
             if not f.endswith('_test.go')]
    names = {}
    for f in files:
        src = open(f).read()
        for m in re.finditer(r'(?m)^var\s+(\w+)\s*=', src):
            names[m.group(1)] = f
        for blk in re.finditer(r'(?ms)^var\s*\((.*?)^\)', src):
            for m in re.finditer(r'(?m)^\s+(\w+)\s*(?:[\w\.\[\]\*]+\s*)?=', blk.group(1)):
                names[m.group(1)] = f
    for f in files:
        src = re.sub(r'//.*', '', open(f).read())
        src = re.sub(r'(?ms)^var\s*\(.*?^\)', '', src)
        src = re.sub(r'(?m)^var\s+\w+.*$', '', src)
        for n in names:
            for m in re.finditer(r'(?m)^\s+(?:\w+\.)?%s(?:\[[^\]]*\])?\s*(?:=|\+=|-=)[^=]' % re.escape(n), src):
                findings.append('%s: write to package-level variable %s: %s' % (os.path.relpath(f, repo), n, m.group(0).strip()[:80]))
            for m in re.finditer(r'delete\(\s*(?:\w+\.)?%s\b' % re.escape(n), src):
                findings.append('%s: delete from package-level map %s' % (os.path.relpath(f, repo), n))
    return sorted(names), findings


def run(pid, tier, seed, scratch, build, sh, V, BIN, ENV):
    t0 = time.time()
    spec = PROPS[pid]
    HARNESS = os.path.join(V, 'harness')
    problems = []
    rc, out = sh(['go', 'build', '-race', '-o', os.path.join(BIN, 'observe-race'), './cmd/observe'], cwd=HARNESS)
    res = None
    race_reports = 0
    raw = ''
    if rc != 0:
        problems.append({'kind': 'harness-does-not-build-against-repo', 'what': out[-800:]})
    else:
        n, g, rounds = (300, 16, 3) if tier == 'quick' else (2000, 24, 4)
        env = dict(ENV, GORACE='halt_on_error=0 exitcode=66', OBSERVE_TIMEOUT_MS='60000')
        p = subprocess.run([os.path.join(BIN, 'observe-race'), 'race', '-seed', str(seed), '-n', str(n), '-g', str(g), '-rounds', str(rounds)],
                           env=env, stdout=subprocess.PIPE, stderr=subprocess.PIPE, timeout=6000)
        raw = p.stderr.decode('utf-8', 'replace')
        race_reports = raw.count('WARNING: DATA RACE')
        try:
            res = json.loads(p.stdout.decode().strip().splitlines()[-1])
        except Exception:
            problems.append({'kind': 'run-broken', 'what': (p.stdout.decode()[-300:] + raw[-500:])})
        if p.returncode not in (0, 66) and res is not None and 'fatal error' in raw:
            problems.append({'kind': 'runtime-crash', 'what': raw[-600:]})
    # package-level state: resolved by the type checker (cmd/gwrites: an assignment, increment, delete or clear whose target is a
    # package-level variable of the library, outside its declaration and outside init); the regular-expression scan is the fallback
    # when the library does not type-check
    names, writes, taken = None, [], []
    rc2, out2 = sh(['go', 'build', '-o', os.path.join(BIN, 'gwrites'), './cmd/gwrites'], cwd=HARNESS)
    if rc2 == 0:
        pw = subprocess.run([os.path.join(BIN, 'gwrites'), REPO_PATH], env=ENV, stdout=subprocess.PIPE, stderr=subprocess.PIPE, timeout=600)
        try:
            gw = json.loads(pw.stdout.decode().strip().splitlines()[-1])
            names = gw['variables']
            writes = ['%s: %s of package-level variable %s' % (w['pos'], w['kind'], w['var']) for w in gw['writes'] if w['kind'] != 'address taken']
            taken = ['%s: %s' % (w['pos'], w['var']) for w in gw['writes'] if w['kind'] == 'address taken']
        except Exception:
            names = None
    if names is None:
        names, writes = global_writes(REPO_PATH)
    violation = None
    if race_reports:
        m = re.search(r'WARNING: DATA RACE.*?(?=\n==================)', raw, re.S)
        violation = {'property': pid, 'kind': 'violation', 'clause': 'data-race', 'report': (m.group(0) if m else raw)[:3000], 'seed': seed,
                     'replay': 'go build -race ./cmd/observe && observe-race race -seed %d' % seed}
    elif res and (res['mismatches'] or res['mutated']):
        violation = {'property': pid, 'kind': 'violation', 'clause': res['mismatches'][0].split(' ')[0] if res['mismatches'] else 'shared-expression-modified',
                     'mismatches': res['mismatches'], 'seed': seed}
    elif writes:
        violation = {'property': pid, 'kind': 'violation', 'clause': 'package-level-state-written', 'writes': writes}
    elif problems:
        violation = {'property': pid, 'kind': 'no-failing-input-found', 'not_checking': problems}
    wall = time.time() - t0
    ev = {'property_id': pid, 'tier': tier, 'seed': seed, 'level': 'other', 'wall_s': round(wall, 2), 'violations': 1 if violation and violation['kind'] == 'violation' else 0,
          'coverage': {
              'explanation': spec['status'] + ' This run: ' + (('%d goroutines x %d calls over %d queries (shared and private expressions), compared with a sequential run; '
                             '%d data race report(s); %d result mismatch(es); %d shared expression(s) modified; package-level variables %s, %d write(s) found by the type-based scan (addresses taken: %d)')
                             % (res['goroutines'], res['calls'], res['cases'], race_reports, len(res['mismatches']), res['mutated'], names, len(writes), len(taken)) if res else 'harness did not run'),
              'evaluations': res['calls'] if res else 0,
              'distinct_nontrivial': res['cases'] if res else 0,
              'rule': spec['rule'],
              'samples': (res['samples'] if res else ['none']),
              'trusted_base': spec['trusted_base'],
              'not_checking': problems},
          'assumptions': spec['assumptions']}
    os.makedirs(os.path.join(V, 'evidence'), exist_ok=True)
    json.dump(ev, open(os.path.join(V, 'evidence', pid + '.json'), 'w'), indent=1)
    if violation:
        rp = os.path.join(V, 'replay', '%s_%s_%d.json' % (pid, tier, seed))
        os.makedirs(os.path.dirname(rp), exist_ok=True)
        json.dump(violation, open(rp, 'w'), indent=1)
        print('VIOLATION property=%s replay=%s%s' % (pid, rp, ' no-failing-input-found' if violation['kind'] != 'violation' else ''))
        return 1
    print('OK property=%s tier=%s calls=%d wall=%.1fs' % (pid, tier, res['calls'], wall))
    return 0
