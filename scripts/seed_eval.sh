#!/bin/bash
# seed_eval.sh <seed-id> [props...] : apply a seeded change to /repo, run the quick checks (all, or the listed ones) in parallel,
# print which raise a VIOLATION, and restore /repo
ID=$1; shift
PROPS=${@:-C01 C02 C03 C04 C05 C06 C07 C08 C09 C10 C11 C12 C13 C14 C15 C16}
cd /repo && git checkout -q -- . && git clean -fdq
git apply /verif/seeded/$ID/patch.diff || { echo "$ID: patch does not apply"; exit 2; }
mkdir -p /tmp/seed_eval/$ID
cd /verif
for p in $PROPS; do ( timeout 3000 ./check $p quick > /tmp/seed_eval/$ID/$p.out 2>&1; echo $? > /tmp/seed_eval/$ID/$p.rc ) & done
wait
cd /repo && git checkout -q -- . && git clean -fdq
echo -n "$ID:"
for p in $PROPS; do
  if grep -q '^VIOLATION' /tmp/seed_eval/$ID/$p.out; then
    if grep -q 'no-failing-input-found' /tmp/seed_eval/$ID/$p.out; then echo -n " $p(nfi)"; else echo -n " $p(INPUT)"; fi
  elif [ "$(cat /tmp/seed_eval/$ID/$p.rc)" != "0" ]; then echo -n " $p(rc=$(cat /tmp/seed_eval/$ID/$p.rc))"; fi
done
echo
