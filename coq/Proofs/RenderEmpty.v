(* Scratch: C10, result shape of the renderers — an error always comes with an empty text *)
Require Import Parser ParserShape Render RenderStr RenderStr2 RenderTotal RenderInline RenderParamTotal.
From Coq Require Import List Ascii String ZArith Bool Lia Arith.
Import ListNotations.

Section E.
Variable o2 : oracle2.

Definition rn_node (l : value) (op : operator) (r : value) (lf rt : string) : out sres :=
  let lf := wrap_if (negb (no_wrap_op op) && negb (is_simple l)) lf in
  let rt := wrap_if (negb (no_wrap_op op) && negb (is_simple r)) rt in
  match pg_fn o2 op with
  | None => Ret (""%string, Some "unable to render operator"%string)
  | Some fn => fn lf rt
  end.
Lemma render_eq l op r bo fu :
  render o2 (E l op r bo fu) =
  bind (serialize o2 l) (fun ls => match ls with
    | (_, Some er) => Ret (""%string, Some er)
    | (lf, None) => bind (serialize o2 r) (fun rs_ => match rs_ with
        | (_, Some er) => Ret (""%string, Some er)
        | (rt, None) => rn_node l op r lf rt end) end).
Proof. reflexivity. Qed.

Definition ee (x : out sres) : Prop := forall s er, x = Ret (s, Some er) -> s = ""%string.

Lemma rang_core_ee left right K : (forall i a b, ee (K i a b)) -> ee (fn_rang_core left right K).
Proof.
  intros HK s er. unfold fn_rang_core. destruct (String.length right) as [|[|n]]; try discriminate.
  destruct (split_comma _ _) as [|a [|b [|c l]]]; try (intros H; inversion H; reflexivity). apply HK.
Qed.

Lemma rn_node_ee l op r lf rt : ee (rn_node l op r lf rt).
Proof.
  intros s er. unfold rn_node. destruct op; cbn [pg_fn];
    try solve [intros H; inversion H; reflexivity];
    try solve [unfold fn_literal; repeat match goal with |- context [if ?b then _ else _] => destruct b end; intros H; inversion H; reflexivity];
    try solve [unfold fn_like; repeat match goal with |- context [if ?b then _ else _] => destruct b end; intros H; inversion H].
  (* Range *)
  apply rang_core_ee. intros i a b s' er'. unfold rang_by_text.
  destruct (to_ints a b) as [[? ?]|]; [discriminate|]. destruct (to_floats o2 a b) as [[? ?]|]; discriminate.
Qed.

Theorem render_err_empty_sz : forall n,
  (forall e, esize e <= n -> ee (render o2 e)) /\ (forall v, vsize v <= n -> ee (serialize o2 v)).
Proof.
  induction n as [|n [IHe IHv]].
  { split; [intros e Hs; destruct e; cbn in Hs; lia|].
    intros v Hs s er. destruct v; cbn in Hs; try lia; try discriminate.
    - cbn [serialize]. unfold ser_column. repeat match goal with |- context [if ?b then _ else _] => destruct b end; intros H; inversion H; reflexivity.
    - destruct e; cbn in Hs; lia. }
  assert (HE : forall e, esize e <= S n -> ee (render o2 e)).
  { intros [l op r bo fu] Hs s er. cbn in Hs. rewrite render_eq.
    destruct (serialize o2 l) as [[lf [el|]]|] eqn:El; cbn [bind]; try discriminate; [intros H; inversion H; reflexivity|].
    destruct (serialize o2 r) as [[rt [er'|]]|] eqn:Er; cbn [bind]; try discriminate; [intros H; inversion H; reflexivity|].
    apply rn_node_ee. }
  split; [exact HE|].
  intros v Hs s er. destruct v as [| | | | |c|e|l|a b incl]; try discriminate.
  - cbn [serialize]. unfold ser_column. repeat match goal with |- context [if ?b then _ else _] => destruct b end; intros H; inversion H; reflexivity.
  - change (serialize o2 (VExp e)) with (render o2 e). apply HE. cbn in Hs. lia.
  - rewrite ser_list_eq. cbn in Hs. generalize (@nil string). revert Hs.
    induction l as [|x xs IHx]; intros Hs acc; cbn [ser_list]; [discriminate|].
    destruct (render o2 x) as [[s' [e'|]]|] eqn:Ex; cbn [bind]; try discriminate.
    + intros H. inversion H; subst. exact (IHe x ltac:(lia) _ _ Ex).
    + apply IHx. lia.
  - cbn in Hs.
    change (serialize o2 (VBound a b incl)) with
      (bind (serialize o2 a) (fun x => match x with (_, Some er) => Ret (""%string, Some er) | (smin, None) =>
         bind (serialize o2 b) (fun y => match y with (_, Some er) => Ret (""%string, Some er) | (smax, None) =>
           Ret ((if incl then "[" ++ smin ++ ", " ++ smax ++ "]" else "(" ++ smin ++ ", " ++ smax ++ ")")%string, None) end) end)).
    destruct (serialize o2 a) as [[s1 [e1|]]|]; cbn [bind]; try discriminate; [intros H; inversion H; reflexivity|].
    destruct (serialize o2 b) as [[s2 [e2|]]|]; cbn [bind]; try discriminate. intros H; inversion H; reflexivity.
Qed.

Theorem render_err_empty e s er : render o2 e = Ret (s, Some er) -> s = ""%string.
Proof. exact (proj1 (render_err_empty_sz (esize e)) e (le_n _) s er). Qed.
End E.
Print Assumptions render_err_empty.
