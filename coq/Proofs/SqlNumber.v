(* C04: numbering the placeholders of the parameterized text of a fragment tree gives the numbered text of Proofs/SqlLexP.v *)
Require Import Parser ParserShape Render PgModel QuerySem SqlFrag SqlFragP.
Require Import Decimal SqlLex SqlParseP SqlLexP.
From Coq Require Import List Ascii String NArith ZArith Bool Arith Lia.
Import ListNotations.
Open Scope string_scope.
Open Scope nat_scope.

Definition qm : bytes := ["?"%char].
Fixpoint qms (n : nat) : bytes := match n with 0 => [] | 1 => qm | S n' => (qm ++ str ", " ++ qms n')%list end.

(* the parameterized text, with ? *)
Fixpoint ptxt (e : Parser.expr) : bytes :=
  match e with
  | E l op rt _ _ =>
    match op with
    | And => ("("%char :: ptxt_v l ++ str ") AND (" ++ ptxt_v rt ++ [")"%char])%list
    | Or => ("("%char :: ptxt_v l ++ str ") OR (" ++ ptxt_v rt ++ [")"%char])%list
    | Not | MustNot => (str "NOT(" ++ ptxt_v l ++ [")"%char])%list
    | Must => ptxt_v l
    | Equals | Greater | Less | GreaterEq | LessEq => (bdq (fname l) ++ str (optext op) ++ qm)%list
    | Like => (bdq (fname l) ++ str " SIMILAR TO " ++ qm)%list
    | Tables.In => (bdq (fname l) ++ str " IN (" ++ qms (pcount (E l op rt 0%Z 0%Z)) ++ [")"%char])%list
    | Range =>
        match rt with
        | VBound lo hi incl =>
            match int_bound lo, int_bound hi with
            | Some _, Some _ => (bdq (fname l) ++ str (if incl then " >= " else " > ") ++ qm ++ str " AND " ++ bdq (fname l) ++ str (if incl then " <= " else " < ") ++ qm)%list
            | None, Some _ => (bdq (fname l) ++ str (if incl then " <= " else " < ") ++ qm)%list
            | Some _, None => (bdq (fname l) ++ str (if incl then " >= " else " > ") ++ qm)%list
            | None, None => []
            end
        | _ => []
        end
    | _ => []
    end
  end
with ptxt_v (v : value) : bytes := match v with VExp e => ptxt e | _ => [] end.

Definition plainc (c : ascii) : bool := negb (Ascii.eqb c """"%char) && negb (Ascii.eqb c "'"%char) && negb (Ascii.eqb c "?"%char).

Lemma N_plain : forall piece rest k, forallb plainc piece = true ->
  number_q (piece ++ rest)%list k false false = (piece ++ number_q rest k false false)%list.
Proof.
  induction piece as [|c p IH]; intros rest k H; [reflexivity|]. cbn [forallb] in H. apply andb_true_iff in H. destruct H as [Hc Hp].
  unfold plainc in Hc. apply andb_true_iff in Hc. destruct Hc as [Hc H3]. apply andb_true_iff in Hc. destruct Hc as [H1 H2].
  apply negb_true_iff in H1, H2, H3. cbn [app number_q]. rewrite H1, H2, H3. cbn [andb negb]. rewrite (IH rest k Hp). reflexivity.
Qed.

Lemma N_inq : forall f rest k, forallb (fun c => negb (Ascii.eqb c """"%char)) f = true ->
  number_q (f ++ """"%char :: rest)%list k true false = (f ++ """"%char :: number_q rest k false false)%list.
Proof.
  induction f as [|c f IH]; intros rest k H.
  - cbn [app number_q]. change (Ascii.eqb """"%char """"%char) with true. cbn [andb negb]. reflexivity.
  - cbn [forallb] in H. apply andb_true_iff in H. destruct H as [Hc Hf]. apply negb_true_iff in Hc.
    cbn [app number_q]. rewrite Hc. cbn [andb negb]. rewrite !andb_false_r. rewrite (IH rest k Hf). reflexivity.
Qed.

Lemma N_bdq fl rest k : name_ok fl = true -> number_q (bdq fl ++ rest)%list k false false = (bdq fl ++ number_q rest k false false)%list.
Proof.
  unfold name_ok. intros H. apply andb_true_iff in H. destruct H as [H _]. apply andb_true_iff in H. destruct H as [_ H2].
  unfold bdq. cbn [app number_q]. change (Ascii.eqb """"%char """"%char) with true. cbn [andb negb].
  rewrite <- ?app_assoc. cbn [app]. rewrite (N_inq (str fl) rest k H2). reflexivity.
Qed.

Lemma N_q rest k : number_q (qm ++ rest)%list k false false = (qmark k ++ number_q rest (S k) false false)%list.
Proof. reflexivity. Qed.

Lemma N_qms : forall n k rest, number_q (qms (S n) ++ rest)%list k false false = (qmarks k (S n) ++ number_q rest (k + S n) false false)%list.
Proof.
  induction n as [|n IH]; intros k rest.
  - cbn [qms qmarks]. rewrite N_q. replace (k + 1) with (S k) by lia. reflexivity.
  - change (qms (S (S n))) with (qm ++ str ", " ++ qms (S n))%list. change (qmarks k (S (S n))) with (qmark k ++ str ", " ++ qmarks (S k) (S n))%list.
    rewrite <- ?app_assoc. rewrite N_q. rewrite (N_plain (str ", ") _ _ eq_refl). rewrite IH. replace (S k + S n) with (k + S (S n)) by lia. reflexivity.
Qed.

Lemma optext_plain op : forallb plainc (str (optext op)) = true.
Proof. destruct op; reflexivity. Qed.
Lemma ge_plain (incl : bool) : forallb plainc (str (if incl then " >= " else " > ")) = true. Proof. destruct incl; reflexivity. Qed.
Lemma le_plain (incl : bool) : forallb plainc (str (if incl then " <= " else " < ")) = true. Proof. destruct incl; reflexivity. Qed.

Ltac np := first [ rewrite (N_plain (str ") AND (") _ _ eq_refl) | rewrite (N_plain (str ") OR (") _ _ eq_refl) | rewrite (N_plain (str "NOT(") _ _ eq_refl)
                 | rewrite (N_plain (str " SIMILAR TO ") _ _ eq_refl) | rewrite (N_plain (str " IN (") _ _ eq_refl) | rewrite (N_plain (str " AND ") _ _ eq_refl)
                 | rewrite (N_plain [")"%char] _ _ eq_refl) | rewrite (N_plain ["("%char] _ _ eq_refl) ].

Theorem number_ptxt_sz : forall n e, esize e <= n -> forall k ts a ps, trp e k = Some (ts, a, ps) -> names_ok e = true ->
  forall rest, number_q (ptxt e ++ rest)%list k false false = (ntxt e k ++ number_q rest (k + pcount e) false false)%list.
Proof.
  induction n as [|n IH]; intros e Hn k ts a ps T Nm rest; [destruct e; cbn in Hn; lia|].
  destruct e as [l op rt b fz]. cbn [esize] in Hn. cbn [trp] in T.
  destruct op; try discriminate.
  - (* And *)
    destruct l as [ |?|?|?|?|?|x|?|? ? ?]; try discriminate. destruct rt as [ |?|?|?|?|?|y|?|? ? ?]; try discriminate.
    destruct (trp x k) as [[[tx ax] px]|] eqn:Tx; [|discriminate]. destruct (trp y (k + List.length px)) as [[[ty ay] py]|] eqn:Ty; [|discriminate].
    cbn [names_ok names_ok_v] in Nm. apply andb_true_iff in Nm. destruct Nm as [Nx Ny]. cbn [vsize] in Hn.
    pose proof (trp_pcount_sz _ x (le_n _) k tx ax px Tx) as Lx. rewrite Lx in Ty.
    cbn [ptxt ptxt_v ntxt ntxt_v pcount pcount_v]. change ("("%char :: ?X) with (["("%char] ++ X)%list.
    change ("("%char :: ptxt x ++ str ") AND (" ++ ptxt y ++ [")"%char])%list with (["("%char] ++ ptxt x ++ str ") AND (" ++ ptxt y ++ [")"%char])%list.
    rewrite <- ?app_assoc. np. rewrite (IH x ltac:(lia) k tx ax px Tx Nx). np. rewrite (IH y ltac:(lia) _ ty ay py Ty Ny). np.
    cbn [app]. rewrite <- ?app_assoc. rewrite Nat.add_assoc. reflexivity.
  - (* Or *)
    destruct l as [ |?|?|?|?|?|x|?|? ? ?]; try discriminate. destruct rt as [ |?|?|?|?|?|y|?|? ? ?]; try discriminate.
    destruct (trp x k) as [[[tx ax] px]|] eqn:Tx; [|discriminate]. destruct (trp y (k + List.length px)) as [[[ty ay] py]|] eqn:Ty; [|discriminate].
    cbn [names_ok names_ok_v] in Nm. apply andb_true_iff in Nm. destruct Nm as [Nx Ny]. cbn [vsize] in Hn.
    pose proof (trp_pcount_sz _ x (le_n _) k tx ax px Tx) as Lx. rewrite Lx in Ty.
    cbn [ptxt ptxt_v ntxt ntxt_v pcount pcount_v].
    change ("("%char :: ptxt x ++ str ") OR (" ++ ptxt y ++ [")"%char])%list with (["("%char] ++ ptxt x ++ str ") OR (" ++ ptxt y ++ [")"%char])%list.
    rewrite <- ?app_assoc. np. rewrite (IH x ltac:(lia) k tx ax px Tx Nx). np. rewrite (IH y ltac:(lia) _ ty ay py Ty Ny). np.
    cbn [app]. rewrite <- ?app_assoc. rewrite Nat.add_assoc. reflexivity.
  - (* Equals *)
    destruct (field_of l) as [fl|] eqn:Fl; [|discriminate]. destruct rt as [ |?|?|?|?|?|lf|?|? ? ?]; try discriminate.
    cbn [names_ok] in Nm. unfold fname in Nm. rewrite Fl in Nm. cbn [ptxt ntxt pcount]. unfold fname. rewrite Fl.
    rewrite <- ?app_assoc. rewrite (N_bdq fl _ _ Nm), (N_plain _ _ _ (optext_plain Equals)), N_q. replace (k + 1) with (S k) by lia. reflexivity.
  - (* Like *)
    destruct (field_of l) as [fl|] eqn:Fl; [|discriminate]. destruct rt as [ |?|?|?|?|?|p|?|? ? ?]; try discriminate.
    cbn [names_ok] in Nm. unfold fname in Nm. rewrite Fl in Nm. cbn [ptxt ntxt pcount]. unfold fname. rewrite Fl.
    rewrite <- ?app_assoc. rewrite (N_bdq fl _ _ Nm). np. rewrite N_q. replace (k + 1) with (S k) by lia. reflexivity.
  - (* Not *)
    destruct l as [ |?|?|?|?|?|x|?|? ? ?]; try discriminate. destruct rt; try discriminate.
    destruct (trp x k) as [[[tx ax] px]|] eqn:Tx; [|discriminate]. cbn [names_ok names_ok_v] in Nm. cbn [vsize] in Hn.
    cbn [ptxt ptxt_v ntxt ntxt_v pcount pcount_v]. rewrite <- ?app_assoc. np. rewrite (IH x ltac:(lia) k tx ax px Tx Nm). np. reflexivity.
  - (* Range *)
    destruct (field_of l) as [fl|] eqn:Fl; [|discriminate]. destruct rt as [ |?|?|?|?|?|?|?|lo hi incl]; try discriminate. cbv zeta in T.
    cbn [names_ok] in Nm. unfold fname in Nm. rewrite Fl in Nm. cbn [ptxt ntxt pcount]. unfold fname. rewrite Fl.
    destruct (int_bound lo) as [a0|] eqn:Ba; destruct (int_bound hi) as [b0|] eqn:Bb.
    + rewrite <- ?app_assoc. rewrite (N_bdq fl _ _ Nm), (N_plain _ _ _ (ge_plain incl)), N_q. np. rewrite (N_bdq fl _ _ Nm), (N_plain _ _ _ (le_plain incl)), N_q.
      replace (k + (1 + 1)) with (S (S k)) by lia. reflexivity.
    + rewrite <- ?app_assoc. rewrite (N_bdq fl _ _ Nm), (N_plain _ _ _ (ge_plain incl)), N_q. replace (k + (1 + 0)) with (S k) by lia. reflexivity.
    + rewrite <- ?app_assoc. rewrite (N_bdq fl _ _ Nm), (N_plain _ _ _ (le_plain incl)), N_q. replace (k + (0 + 1)) with (S k) by lia. reflexivity.
    + destruct (is_star lo), (is_star hi); discriminate.
  - (* Must *)
    destruct l as [ |?|?|?|?|?|x|?|? ? ?]; try discriminate. destruct rt; try discriminate.
    cbn [names_ok names_ok_v] in Nm. cbn [vsize] in Hn. cbn [ptxt ptxt_v ntxt ntxt_v pcount pcount_v]. apply (IH x ltac:(lia) k ts a ps T Nm).
  - (* MustNot *)
    destruct l as [ |?|?|?|?|?|x|?|? ? ?]; try discriminate. destruct rt; try discriminate.
    destruct (trp x k) as [[[tx ax] px]|] eqn:Tx; [|discriminate]. cbn [names_ok names_ok_v] in Nm. cbn [vsize] in Hn.
    cbn [ptxt ptxt_v ntxt ntxt_v pcount pcount_v]. rewrite <- ?app_assoc. np. rewrite (IH x ltac:(lia) k tx ax px Tx Nm). np. reflexivity.
  - destruct (field_of l) as [fl|] eqn:Fl; [|discriminate]. destruct rt as [ |?|?|?|?|?|lf|?|? ? ?]; try discriminate.
    cbn [names_ok] in Nm. unfold fname in Nm. rewrite Fl in Nm. cbn [ptxt ntxt pcount]. unfold fname. rewrite Fl.
    rewrite <- ?app_assoc. rewrite (N_bdq fl _ _ Nm), (N_plain _ _ _ (optext_plain Greater)), N_q. replace (k + 1) with (S k) by lia. reflexivity.
  - destruct (field_of l) as [fl|] eqn:Fl; [|discriminate]. destruct rt as [ |?|?|?|?|?|lf|?|? ? ?]; try discriminate.
    cbn [names_ok] in Nm. unfold fname in Nm. rewrite Fl in Nm. cbn [ptxt ntxt pcount]. unfold fname. rewrite Fl.
    rewrite <- ?app_assoc. rewrite (N_bdq fl _ _ Nm), (N_plain _ _ _ (optext_plain Less)), N_q. replace (k + 1) with (S k) by lia. reflexivity.
  - destruct (field_of l) as [fl|] eqn:Fl; [|discriminate]. destruct rt as [ |?|?|?|?|?|lf|?|? ? ?]; try discriminate.
    cbn [names_ok] in Nm. unfold fname in Nm. rewrite Fl in Nm. cbn [ptxt ntxt pcount]. unfold fname. rewrite Fl.
    rewrite <- ?app_assoc. rewrite (N_bdq fl _ _ Nm), (N_plain _ _ _ (optext_plain GreaterEq)), N_q. replace (k + 1) with (S k) by lia. reflexivity.
  - destruct (field_of l) as [fl|] eqn:Fl; [|discriminate]. destruct rt as [ |?|?|?|?|?|lf|?|? ? ?]; try discriminate.
    cbn [names_ok] in Nm. unfold fname in Nm. rewrite Fl in Nm. cbn [ptxt ntxt pcount]. unfold fname. rewrite Fl.
    rewrite <- ?app_assoc. rewrite (N_bdq fl _ _ Nm), (N_plain _ _ _ (optext_plain LessEq)), N_q. replace (k + 1) with (S k) by lia. reflexivity.
  - (* In *)
    destruct (field_of l) as [fl|] eqn:Fl; [|discriminate]. destruct rt as [ |?|?|?|?|?|p|?|? ? ?]; try discriminate. destruct p as [l2 op2 r2 b2 f2].
    destruct l2 as [ |?|?|?|?|?|?|lits|? ? ?]; try discriminate. destruct lits as [|x lits]; try discriminate.
    cbn [names_ok] in Nm. unfold fname in Nm. rewrite Fl in Nm. cbn [ptxt ntxt pcount List.length]. unfold fname. rewrite Fl.
    rewrite <- ?app_assoc. rewrite (N_bdq fl _ _ Nm). np. rewrite N_qms. np. reflexivity.
Qed.
