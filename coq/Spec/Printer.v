(* C05/C09 specification: query trees qt, the documented precedence levels, where parentheses are required (wfq),
   the printer pr and the expected tree want *)
Require Import Parser Shape Build.
From Coq Require Import List String ZArith Bool Lia Arith.
Import ListNotations.
Close Scope string_scope.
Open Scope nat_scope.

(* the canonical spelling of the operator tokens the printer writes *)
Definition spelling (t : toktype) : string :=
  match t with
  | TAnd => "AND" | TOr => "OR" | TNot => "NOT" | TTO => "TO" | TLParen => "(" | TRParen => ")" | TPlus => "+" | TMinus => "-"
  | TTilde => "~" | TCarrot => "^" | TColon => ":" | TEqual => "=" | TGreater => ">" | TLess => "<"
  | TLSquare => "[" | TRSquare => "]" | TLCurly => "{" | TRCurly => "}" | _ => ""
  end%string.
Definition tk (t : toktype) := {| typ := t; val := spelling t |}.


Definition cmp_op (cmp : token) (withEq : bool) : operator :=
  if is TGreater cmp then (if withEq then GreaterEq else Greater) else (if withEq then LessEq else Less).


(* what the `equal` reducer builds from a field and an arbitrary value expression *)
Definition fe_node (f v : expr) : expr :=
  let '(lits, ok) := chained_or_literals ""%string v in
  if ok && (1 <? List.length lits) then Build.inx f lits else Build.eqx f v.


(* ---- spec trees ---- *)
Inductive qt :=
| QTerm (t : token)
| QFv (f ct v : token)
| QCmp (f ct cmp : token) (eq : option token) (v : token)
| QRange (f ct op lo to hi cl : token)
| QFe (f ct : token) (a : qt)
| QAnd (a b : qt) | QOr (a b : qt)
| QNot (a : qt) | QMust (a : qt) | QMustNot (a : qt)
| QBoost (a : qt) (n : option token) | QFuzzy (a : qt) (n : option token)
| QPar (a : qt).

Definition lvl (t : qt) : nat :=
  match t with
  | QOr _ _ => 1 | QAnd _ _ => 2 | QNot _ => 3 | QBoost _ _ => 4 | QFuzzy _ _ => 5 | QMustNot _ => 6 | QMust _ => 7
  | _ => 8 end.

Definition is_term_tok (t : token) : bool := match typ t with TLiteral | TQuoted | TRegexp => true | _ => false end.

(* may t follow the context token c without parentheses *)
Definition ctx_tok (c : toktype) : bool :=
  match c with TStart | TLParen | TOr | TAnd | TNot | TMinus | TPlus => true | _ => false end.
Definition clvl (c : toktype) : nat := match c with TOr => 1 | TAnd => 2 | TNot => 3 | TMinus => 6 | TPlus => 7 | _ => 0 end.
Definition fits (c : toktype) (t : qt) : bool :=
  ctx_tok c && ((clvl c <? lvl t) || (is_prefix_op c && (lvl t =? clvl c))).

Section WithOracle.
Variable o : oracle.

Fixpoint wfq (t : qt) : Prop :=
  match t with
  | QTerm tok => is_term_tok tok = true
  | QFv f ct v => is_term_tok f = true /\ is_term_tok v = true /\ is TColon ct = true
  | QCmp f ct cmp eq v => is_term_tok f = true /\ is_term_tok v = true /\ is TColon ct = true /\ (is TGreater cmp || is TLess cmp) = true /\
      match eq with None => True | Some e => is TEqual e = true end
  | QRange f ct op lo to hi cl => is_term_tok f = true /\ is_term_tok lo = true /\ is_term_tok hi = true /\ is TColon ct = true /\
      (is TLSquare op || is TLCurly op) = true /\ (is TRSquare cl || is TRCurly cl) = true /\ is TTO to = true
  | QFe f ct a => is_term_tok f = true /\ is TColon ct = true /\ wfq a
  | QAnd a b => wfq a /\ wfq b /\ 2 <= lvl a /\ fits TAnd b = true
  | QOr a b => wfq a /\ wfq b /\ 1 <= lvl a /\ fits TOr b = true
  | QNot a => wfq a /\ fits TNot a = true
  | QMust a => wfq a /\ fits TPlus a = true
  | QMustNot a => wfq a /\ fits TMinus a = true
  | QBoost a n => wfq a /\ 4 <= lvl a /\
      match n with None => True | Some tok => is_term_tok tok = true /\ exists f, to_positive_float o (parse_literal o tok) = Some f end
  | QFuzzy a n => wfq a /\ 5 <= lvl a /\
      match n with None => True | Some tok => is_term_tok tok = true /\
         exists d, e_left (parse_literal o tok) = VInt d /\ e_op (parse_literal o tok) = Literal end
  | QPar a => wfq a
  end.

Fixpoint pr (t : qt) : list token :=
  match t with
  | QTerm tok => [tok]
  | QFv f ct v => [f; ct; v]
  | QCmp f ct cmp None v => [f; ct; cmp; v]
  | QCmp f ct cmp (Some e) v => [f; ct; cmp; e; v]
  | QRange f ct op lo to hi cl => [f; ct; op; lo; to; hi; cl]
  | QFe f ct a => f :: ct :: tk TLParen :: pr a ++ [tk TRParen]
  | QAnd a b => pr a ++ tk TAnd :: pr b
  | QOr a b => pr a ++ tk TOr :: pr b
  | QNot a => tk TNot :: pr a
  | QMust a => tk TPlus :: pr a
  | QMustNot a => tk TMinus :: pr a
  | QBoost a n => pr a ++ tk TCarrot :: match n with Some tok => [tok] | None => [] end
  | QFuzzy a n => pr a ++ tk TTilde :: match n with Some tok => [tok] | None => [] end
  | QPar a => tk TLParen :: pr a ++ [tk TRParen]
  end.

Fixpoint want (t : qt) : expr :=
  match t with
  | QTerm tok => parse_literal o tok
  | QFv f ct v => Build.eqx (parse_literal o f) (parse_literal o v)
  | QCmp f ct cmp eq v => Build.cmpx (cmp_op cmp (match eq with Some _ => true | None => false end)) (parse_literal o f) (parse_literal o v)
  | QRange f ct op lo to hi cl => Build.rangex (parse_literal o f) (parse_literal o lo) (parse_literal o hi) (is TLSquare op && is TRSquare cl)
  | QFe f ct a => fe_node (parse_literal o f) (want a)
  | QAnd a b => mk2 And (want a) (want b)
  | QOr a b => mk2 Or (want a) (want b)
  | QNot a => mk1 Not (want a)
  | QMust a => mk1 Must (want a)
  | QMustNot a => mk1 MustNot (want a)
  | QBoost a None => mk_boost (want a) one_bits
  | QBoost a (Some tok) => mk_boost (want a) match to_positive_float o (parse_literal o tok) with Some f => f | None => one_bits end
  | QFuzzy a None => mk_fuzzy (want a) 1
  | QFuzzy a (Some tok) => mk_fuzzy (want a) match e_left (parse_literal o tok) with VInt d => d | _ => 1%Z end
  | QPar a => want a
  end.

End WithOracle.

(* lookahead tokens that end an operand, with the level below which everything pending must reduce *)
Definition closing (nx : toktype) : bool := match nx with TEOF | TRParen | TOr | TAnd | TCarrot | TTilde => true | _ => false end.
Definition nlvl (nx : toktype) : nat := match nx with TOr => 1 | TAnd => 2 | TCarrot => 4 | TTilde => 5 | _ => 0 end.
Definition closes (nx : toktype) (t : qt) : bool := closing nx && (nlvl nx <=? lvl t).

Definition top_not_exp (r : list item) : Prop := match r with IExp _ :: _ => False | _ => True end.
