(* Scratch: C06 — the tree the parser returns lays over the token sequence as a derivation *)
Require Import Parser ParserShape.
Require Export Build.
From Coq Require Import List String ZArith Bool Lia Arith.
Import ListNotations.
Close Scope string_scope.
Open Scope nat_scope.

Arguments parse_literal : simpl never.
Arguments to_positive_float : simpl never.
Arguments expr_new : simpl never.
Arguments wrap_literal : simpl never.
Arguments drop : simpl never.

Section L.
Variable o : oracle.
Variable df : string.
Notation scw := (Build.scw df).

Lemma wrap_literal_scw e : wrap_literal e df = Ret (scw e).
Proof.
  unfold wrap_literal, scw. destruct (String.eqb df ""); auto.
  destruct (is_leaf_op (e_op e)); auto. unfold eq_. rewrite expr_new_dfcol. reflexivity.
Qed.

(* ---------- the derivation relation (loose form: field and bounds are arbitrary expressions) ---------- *)
Inductive Lay : expr -> list token -> Prop :=
| L_term t : term_tok t = true -> Lay (parse_literal o t) [t]
| L_par e s a b : Lay e s -> is TLParen a = true -> is TRParen b = true -> Lay e (a :: s ++ [b])
| L_eq f sf v sv t lits ok : Lay f sf -> Lay v sv -> (is TEqual t || is TColon t) = true ->
    chained_or_literals df v = (lits, ok) -> (ok && (1 <? List.length lits)) = false ->
    Lay (eqx f v) (sf ++ t :: sv)
| L_in f sf v sv t lits : Lay f sf -> Lay v sv -> (is TEqual t || is TColon t) = true ->
    chained_or_literals df v = (lits, true) -> (1 <? List.length lits) = true ->
    Lay (inx f lits) (sf ++ t :: sv)
| L_cmp f sf v sv c g : Lay f sf -> Lay v sv -> is TColon c = true -> (is TGreater g || is TLess g) = true ->
    Lay (cmpx (if is TGreater g then Greater else Less) f v) (sf ++ c :: g :: sv)
| L_cmpeq f sf v sv c g q : Lay f sf -> Lay v sv -> is TColon c = true -> (is TGreater g || is TLess g) = true -> is TEqual q = true ->
    Lay (cmpx (if is TGreater g then GreaterEq else LessEq) f v) (sf ++ c :: g :: q :: sv)
| L_range f sf a sa b sb c op to cl : Lay f sf -> Lay a sa -> Lay b sb -> is TColon c = true ->
    (is TLSquare op || is TLCurly op) = true -> (is TRSquare cl || is TRCurly cl) = true -> is TTO to = true ->
    Lay (rangex f a b (is TLSquare op && is TRSquare cl)) (sf ++ c :: op :: sa ++ to :: sb ++ [cl])
| L_bin l s1 r s2 t which op : Lay l s1 -> Lay r s2 -> is which t = true ->
    ((which = TAnd /\ op = And) \/ (which = TOr /\ op = Or)) ->
    Lay (mk2 op (scw l) (scw r)) (s1 ++ t :: s2)
| L_juxt l s1 r s2 : Lay l s1 -> Lay r s2 -> Lay (mk2 And (scw l) (scw r)) (s1 ++ s2)
| L_prefix x s t which op : Lay x s -> is which t = true ->
    ((which = TNot /\ op = Not) \/ (which = TPlus /\ op = Must) \/ (which = TMinus /\ op = MustNot)) ->
    Lay (mk1 op (scw x)) (t :: s)
| L_fuzzy0 x s t : Lay x s -> is TTilde t = true -> Lay (mk_fuzzy (scw x) 1) (s ++ [t])
| L_fuzzy1 x s t d sd n : Lay x s -> is TTilde t = true -> Lay d sd -> e_left d = VInt n -> e_op d = Literal ->
    Lay (mk_fuzzy (scw x) n) (s ++ t :: sd)
| L_boost0 x s t : Lay x s -> is TCarrot t = true -> Lay (mk_boost (scw x) one_bits) (s ++ [t])
| L_boost1 x s t p sp f : Lay x s -> is TCarrot t = true -> Lay p sp -> to_positive_float o p = Some f ->
    Lay (mk_boost (scw x) f) (s ++ t :: sp).

(* a popped segment (original order) lays over a token list; an injected AND accounts for no token *)
Inductive SegLay : list item -> list token -> Prop :=
| SG_nil : SegLay [] []
| SG_tok t r s : SegLay r s -> SegLay (ITok t :: r) (t :: s)
| SG_impl r s : SegLay r s -> SegLay (ITok impl_and :: r) s
| SG_exp e seg r s : Lay e seg -> SegLay r s -> SegLay (IExp e :: r) (seg ++ s).

Lemma Some_inj' {A} (a b : A) : Some a = Some b -> a = b. Proof. congruence. Qed.

Ltac shape H :=
    repeat match type of H with
    | match ?x with _ => _ end = _ => destruct x eqn:?; try discriminate
    | (if ?x then _ else _) = _ => destruct x eqn:?; try discriminate
    | (let '(_, _) := ?x in _) = _ => destruct x eqn:?
    end.
Ltac use_drop H :=
  match type of H with
  | context [drop ?k ?n] => destruct (drop k n); cbn [bind] in H; try discriminate
  end.

(* inversion helpers on SegLay for the fixed shapes the reducers match *)
Lemma seg_exp_inv e r s : SegLay (IExp e :: r) s -> exists seg s', s = seg ++ s' /\ Lay e seg /\ SegLay r s'.
Proof. intros H. inversion H; subst. eauto. Qed.
Lemma seg_tok_inv t r s : SegLay (ITok t :: r) s ->
  (exists s', s = t :: s' /\ SegLay r s') \/ (t = impl_and /\ SegLay r s).
Proof. intros H. inversion H; subst; eauto. Qed.
Lemma seg_nil_inv s : SegLay [] s -> s = [].
Proof. intros H. inversion H. reflexivity. Qed.

Lemma impl_and_typ t x : t = impl_and -> is x t = true -> x = TAnd.
Proof. intros -> H. destruct x; cbn in H; try discriminate. reflexivity. Qed.

Ltac seg_inv :=
  repeat match goal with
  | H : SegLay (IExp _ :: _) _ |- _ => apply seg_exp_inv in H; destruct H as (? & ? & -> & ? & H)
  | H : SegLay [] _ |- _ => apply seg_nil_inv in H; subst
  end.

(* a token that is provably not an AND cannot be the injected one *)
Ltac tok_real H Hty :=
  apply seg_tok_inv in H; destruct H as [(? & -> & H)|[Himpl H]];
  [| exfalso; pose proof (impl_and_typ _ _ Himpl Hty) as Hx; discriminate Hx].

Lemma single e seg : Lay e seg -> SegLay [IExp e] seg.
Proof. intros H. rewrite <- (app_nil_r seg). constructor; auto. constructor. Qed.

Lemma r_sub_lay top nts top' nts' s : SegLay top s -> r_sub top nts df = Some (Ret (top', nts')) -> SegLay top' s.
Proof.
  intros HS H. unfold r_sub in H. shape H. apply Some_inj' in H. subst. use_drop H. inversion H; subst.
  apply andb_true_iff in Heqb. destruct Heqb as [Ha Hb].
  tok_real HS Ha. seg_inv. tok_real HS Hb. seg_inv.
  apply single. rewrite ?app_nil_r. apply L_par; auto.
Qed.

Lemma r_and_or_lay which mk top nts top' nts' s : ((which = TAnd /\ mk = And) \/ (which = TOr /\ mk = Or)) ->
  SegLay top s -> r_and_or which mk top nts df = Some (Ret (top', nts')) -> SegLay top' s.
Proof.
  intros Hw HS H. unfold r_and_or in H. shape H. apply Some_inj' in H. subst.
  rewrite !wrap_literal_scw in H. cbn [bind] in H.
  rewrite expr_new_bin in H by (destruct Hw as [[_ ->]|[_ ->]]; auto). cbn [bind] in H. use_drop H. inversion H; subst.
  seg_inv. apply seg_tok_inv in HS. destruct HS as [(s' & -> & HS)|[Himpl HS]]; seg_inv; rewrite ?app_nil_r.
  - apply single. eapply L_bin; eauto.
  - apply single. assert (Hx : which = TAnd) by (destruct which; cbn in Heqb; try discriminate; reflexivity). subst which.
    destruct Hw as [[_ ->]|[Hd _]]; [|discriminate]. apply L_juxt; auto.
Qed.

Lemma r_prefix_lay which mk top nts top' nts' s : ((which = TPlus /\ mk = Must) \/ (which = TMinus /\ mk = MustNot)) ->
  SegLay top s -> r_prefix which mk top nts df = Some (Ret (top', nts')) -> SegLay top' s.
Proof.
  intros Hw HS H. unfold r_prefix in H. shape H. apply Some_inj' in H. subst.
  rewrite wrap_literal_scw in H. cbn [bind] in H.
  rewrite expr_new_un in H by (destruct Hw as [[_ ->]|[_ ->]]; auto). cbn [bind] in H. use_drop H. inversion H; subst.
  assert (Hne : which <> TAnd) by (destruct Hw as [[-> _]|[-> _]]; discriminate).
  apply seg_tok_inv in HS. destruct HS as [(s' & -> & HS)|[Himpl HS]].
  - seg_inv. rewrite app_nil_r. apply single. eapply L_prefix; eauto; destruct Hw as [[-> ->]|[-> ->]]; auto.
  - exfalso. apply Hne. eapply impl_and_typ; eauto.
Qed.


Lemma r_not_lay top nts top' nts' s : SegLay top s -> r_not top nts df = Some (Ret (top', nts')) -> SegLay top' s.
Proof.
  intros HS H. unfold r_not in H.
  destruct (split_last2 top) as [[[p a] b]|] eqn:E; try discriminate.
  destruct a as [t|]; try discriminate. destruct b as [|x]; try discriminate.
  destruct (is TNot t) eqn:Ht; try discriminate. apply Some_inj' in H.
  assert (Htop : forall (l : list item) p a b, split_last2 l = Some (p, a, b) -> l = p ++ [a; b]).
  { clear. induction l as [|h l IH]; intros p a b E; [discriminate|].
    destruct l as [|y l]; [discriminate|]. destruct l as [|z l].
    - inversion E; subst. reflexivity.
    - change (split_last2 (h :: y :: z :: l)) with
        (match split_last2 (y :: z :: l) with Some (p0, a0, b0) => Some (h :: p0, a0, b0) | None => None end) in E.
      destruct (split_last2 (y :: z :: l)) as [[[p' a'] b']|] eqn:E'; try discriminate.
      inversion E; subst. rewrite (IH p' a b eq_refl). reflexivity. }
  apply Htop in E. subst top.
  rewrite wrap_literal_scw in H. cbn [bind] in H. rewrite expr_new_un in H by tauto. cbn [bind] in H. use_drop H. inversion H; subst.
  (* split the segment at the prefix *)
  assert (Happ : forall a b s, SegLay (a ++ b) s -> exists s1 s2, s = s1 ++ s2 /\ SegLay a s1 /\ SegLay b s2).
  { clear. induction a as [|x a IH]; intros b s H; cbn in H.
    - exists [], s. split; auto. split; [constructor|auto].
    - destruct x as [t|e].
      + apply seg_tok_inv in H. destruct H as [(s' & -> & H)|[-> H]].
        * destruct (IH _ _ H) as (s1 & s2 & -> & A & B). exists (t :: s1), s2. split; auto. split; auto. constructor; auto.
        * destruct (IH _ _ H) as (s1 & s2 & -> & A & B). exists s1, s2. split; auto. split; auto. constructor; auto.
      + apply seg_exp_inv in H. destruct H as (seg & s' & -> & L & H).
        destruct (IH _ _ H) as (s1 & s2 & -> & A & B). exists (seg ++ s1), s2. rewrite app_assoc. split; auto. split; auto. constructor; auto. }
  assert (Hcat : forall a b s1 s2, SegLay a s1 -> SegLay b s2 -> SegLay (a ++ b) (s1 ++ s2)).
  { clear. induction a as [|x a IH]; intros b s1 s2 Ha Hb.
    - apply seg_nil_inv in Ha. subst. exact Hb.
    - destruct x as [t|e].
      + apply seg_tok_inv in Ha. destruct Ha as [(s' & -> & Ha)|[-> Ha]]; cbn; constructor; apply IH; auto.
      + apply seg_exp_inv in Ha. destruct Ha as (seg & s' & -> & L & Ha). cbn. rewrite <- app_assoc. constructor; auto. }
  destruct (Happ _ _ _ HS) as (s1 & s2 & -> & Hp & Hq).
  apply Hcat; auto.
  tok_real Hq Ht. seg_inv. rewrite app_nil_r. apply single. eapply L_prefix; eauto.
Qed.

Lemma r_fuzzy_lay top nts top' nts' s : SegLay top s -> r_fuzzy top nts df = Some (Ret (top', nts')) -> SegLay top' s.
Proof.
  intros HS H. unfold r_fuzzy in H. shape H; apply Some_inj' in H; subst;
    rewrite wrap_literal_scw in H; cbn [bind] in H; rewrite expr_new_fuzzy in H; cbn [bind] in H; use_drop H; inversion H; subst;
    seg_inv.
  - tok_real HS Heqb. seg_inv. apply single. apply L_fuzzy0; auto.
  - tok_real HS Heqb. seg_inv. rewrite app_nil_r. apply single. eapply L_fuzzy1; eauto.
Qed.

Lemma r_boost_lay top nts top' nts' s : SegLay top s -> r_boost o top nts df = Some (Ret (top', nts')) -> SegLay top' s.
Proof.
  intros HS H. unfold r_boost in H. shape H; apply Some_inj' in H; subst;
    rewrite wrap_literal_scw in H; cbn [bind] in H; rewrite expr_new_boost in H; cbn [bind] in H; use_drop H; inversion H; subst;
    seg_inv.
  - tok_real HS Heqb. seg_inv. apply single. apply L_boost0; auto.
  - tok_real HS Heqb. seg_inv. rewrite app_nil_r. apply single. eapply L_boost1; eauto.
Qed.

Lemma r_compare_lay top nts top' nts' s : SegLay top s -> r_compare top nts df = Some (Ret (top', nts')) -> SegLay top' s.
Proof.
  intros HS H. unfold r_compare in H. shape H. apply Some_inj' in H. subst.
  rewrite expr_new_field in H by (destruct (is TGreater t0); tauto). cbn [bind] in H. use_drop H. inversion H; subst.
  apply andb_true_iff in Heqb. destruct Heqb as [Hc Hg].
  seg_inv. tok_real HS Hc.
  assert (Hg' : is TGreater t0 = true \/ is TLess t0 = true) by (apply orb_true_iff; auto).
  apply seg_tok_inv in HS. destruct HS as [(s' & -> & HS)|[Himpl HS]];
    [|exfalso; destruct Hg' as [Hg'|Hg']; pose proof (impl_and_typ _ _ Himpl Hg') as Hx; discriminate Hx].
  seg_inv. rewrite app_nil_r. apply single.
  match goal with L1 : Lay e ?sa, L2 : Lay e0 ?sb |- _ => pose proof (L_cmp e sa e0 sb t t0 L1 L2 Hc Hg) as L end.
  unfold cmpx in L. destruct (is TGreater t0); cbn [op_eqb andb]; exact L.
Qed.

Lemma r_compare_eq_lay top nts top' nts' s : SegLay top s -> r_compare_eq top nts df = Some (Ret (top', nts')) -> SegLay top' s.
Proof.
  intros HS H. unfold r_compare_eq in H. shape H. apply Some_inj' in H. subst.
  rewrite expr_new_field in H by (destruct (is TGreater t0); tauto). cbn [bind] in H. use_drop H. inversion H; subst.
  apply andb_true_iff in Heqb. destruct Heqb as [Hcg Hq]. apply andb_true_iff in Hcg. destruct Hcg as [Hc Hg].
  seg_inv. tok_real HS Hc.
  assert (Hg' : is TGreater t0 = true \/ is TLess t0 = true) by (apply orb_true_iff; auto).
  apply seg_tok_inv in HS. destruct HS as [(s' & -> & HS)|[Himpl HS]];
    [|exfalso; destruct Hg' as [Hg'|Hg']; pose proof (impl_and_typ _ _ Himpl Hg') as Hx; discriminate Hx].
  tok_real HS Hq.
  seg_inv. rewrite app_nil_r. apply single.
  match goal with L1 : Lay e ?sa, L2 : Lay e0 ?sb |- _ => pose proof (L_cmpeq e sa e0 sb t t0 t1 L1 L2 Hc Hg Hq) as L end.
  unfold cmpx in L. destruct (is TGreater t0); cbn [op_eqb andb]; exact L.
Qed.

Lemma r_equal_lay top nts top' nts' s : SegLay top s -> r_equal top nts df = Some (Ret (top', nts')) -> SegLay top' s.
Proof.
  intros HS H. unfold r_equal in H. shape H. apply Some_inj' in H. subst.
  assert (Ht : is TEqual t = true \/ is TColon t = true) by (apply orb_true_iff; auto).
  seg_inv. apply seg_tok_inv in HS. destruct HS as [(s' & -> & HS)|[Himpl HS]];
    [|exfalso; destruct Ht as [Ht|Ht]; pose proof (impl_and_typ _ _ Himpl Ht) as Hx; discriminate Hx].
  seg_inv. rewrite app_nil_r.
  match type of H with (if ?c then _ else _) = _ => destruct c eqn:EC end.
  - rewrite expr_new_list in H. cbn [bind] in H. rewrite expr_new_in in H. cbn [bind] in H. use_drop H. inversion H; subst.
    apply andb_true_iff in EC. destruct EC as [-> EC]. apply single. eapply L_in; eauto.
  - unfold eq_ in H. rewrite expr_new_field in H by tauto. cbn [bind op_eqb andb] in H. use_drop H. inversion H; subst.
    apply single. eapply L_eq; eauto.
Qed.

Lemma r_range_lay top nts top' nts' s : SegLay top s -> r_range top nts df = Some (Ret (top', nts')) -> SegLay top' s.
Proof.
  intros HS H. unfold r_range in H. shape H. apply Some_inj' in H. subst.
  rewrite expr_new_range in H. cbn [bind] in H. use_drop H. inversion H; subst.
  repeat match goal with Hb : _ && _ = true |- _ => apply andb_true_iff in Hb; destruct Hb end.
  assert (Ho : is TLSquare t0 = true \/ is TLCurly t0 = true) by (apply orb_true_iff; auto).
  assert (Hcl : is TRSquare t2 = true \/ is TRCurly t2 = true) by (apply orb_true_iff; auto).
  seg_inv.
  match goal with Hc : is TColon t = true |- _ => tok_real HS Hc end.
  apply seg_tok_inv in HS. destruct HS as [(s' & -> & HS)|[Himpl HS]];
    [|exfalso; destruct Ho as [Hx|Hx]; pose proof (impl_and_typ _ _ Himpl Hx) as Hy; discriminate Hy].
  seg_inv.
  match goal with Hc : is TTO t1 = true |- _ => tok_real HS Hc end.
  seg_inv.
  apply seg_tok_inv in HS. destruct HS as [(s' & -> & HS)|[Himpl HS]];
    [|exfalso; destruct Hcl as [Hx|Hx]; pose proof (impl_and_typ _ _ Himpl Hx) as Hy; discriminate Hy].
  seg_inv. apply single. eapply L_range; eauto.
Qed.

Lemma reducer_lay : forall rd, In rd (reducers o) -> forall top nts top' nts' s,
  SegLay top s -> rd top nts df = Some (Ret (top', nts')) -> SegLay top' s.
Proof.
  intros rd Hin top nts top' nts' s HS H.
  unfold reducers in Hin. simpl in Hin.
  destruct Hin as [<-|Hin]; [eapply (r_and_or_lay TAnd And); eauto|].
  destruct Hin as [<-|Hin]; [eapply (r_and_or_lay TOr Or); eauto|].
  destruct Hin as [<-|Hin]; [eapply r_equal_lay; eauto|].
  destruct Hin as [<-|Hin]; [eapply r_compare_lay; eauto|].
  destruct Hin as [<-|Hin]; [eapply r_compare_eq_lay; eauto|].
  destruct Hin as [<-|Hin]; [eapply r_not_lay; eauto|].
  destruct Hin as [<-|Hin]; [eapply r_sub_lay; eauto|].
  destruct Hin as [<-|Hin]; [eapply (r_prefix_lay TPlus Must); eauto|].
  destruct Hin as [<-|Hin]; [eapply (r_prefix_lay TMinus MustNot); eauto|].
  destruct Hin as [<-|Hin]; [eapply r_fuzzy_lay; eauto|].
  destruct Hin as [<-|Hin]; [eapply r_boost_lay; eauto|].
  destruct Hin as [<-|Hin]; [eapply r_range_lay; eauto|].
  contradiction.
Qed.


(* ---------- from segments to the whole stack ---------- *)
Lemma seg_split : forall a b s, SegLay (a ++ b) s -> exists s1 s2, s = s1 ++ s2 /\ SegLay a s1 /\ SegLay b s2.
Proof.
  induction a as [|x a IH]; intros b s H; cbn in H.
  - exists [], s. split; auto. split; [constructor|auto].
  - destruct x as [t|e].
    + apply seg_tok_inv in H. destruct H as [(s' & -> & H)|[-> H]].
      * destruct (IH _ _ H) as (s1 & s2 & -> & A & B). exists (t :: s1), s2. split; auto. split; auto. constructor; auto.
      * destruct (IH _ _ H) as (s1 & s2 & -> & A & B). exists s1, s2. split; auto. split; auto. constructor; auto.
    + apply seg_exp_inv in H. destruct H as (seg & s' & -> & L & H).
      destruct (IH _ _ H) as (s1 & s2 & -> & A & B). exists (seg ++ s1), s2. rewrite app_assoc. split; auto. split; auto. constructor; auto.
Qed.
Lemma seg_cat : forall a b s1 s2, SegLay a s1 -> SegLay b s2 -> SegLay (a ++ b) (s1 ++ s2).
Proof.
  induction a as [|x a IH]; intros b s1 s2 Ha Hb.
  - apply seg_nil_inv in Ha. subst. exact Hb.
  - destruct x as [t|e].
    + apply seg_tok_inv in Ha. destruct Ha as [(s' & -> & Ha)|[-> Ha]]; cbn; constructor; apply IH; auto.
    + apply seg_exp_inv in Ha. destruct Ha as (seg & s' & -> & L & Ha). cbn. rewrite <- app_assoc. constructor; auto.
Qed.

Lemma try_reducers_lay : forall rds, (forall rd, In rd rds -> In rd (reducers o)) -> forall top nts top' nts' s,
  SegLay top s -> try_reducers rds top nts df = Some (Ret (top', nts')) -> SegLay top' s.
Proof.
  induction rds as [|rd rds IH]; intros Hsub top nts top' nts' s HS H; cbn in H; try discriminate.
  destruct (rd top nts df) eqn:E.
  - apply Some_inj' in H. subst. eapply reducer_lay; eauto. apply Hsub; left; reflexivity.
  - eapply IH; eauto. intros. apply Hsub. right. assumption.
Qed.

Lemma rev_append_rev {A} (a b : list A) : rev (rev_append a b) = rev b ++ a.
Proof. rewrite rev_append_rev. rewrite rev_app_distr, rev_involutive. reflexivity. Qed.

(* parser.reduce() keeps the stack laid over the same consumed tokens *)
Lemma reduce_lay : forall r top nts r' nts' cons,
  SegLay (rev r ++ top) cons -> reduce_loop o r top nts df = ROk r' nts' -> SegLay (rev r') cons.
Proof.
  induction r as [|x r IH]; intros top nts r' nts' cons HS H; cbn [reduce_loop] in H; try discriminate.
  cbn [rev] in HS. rewrite <- app_assoc in HS. cbn [app] in HS.
  destruct (try_reducers (reducers o) (x :: top) nts df) as [[[t n]|]|] eqn:E; try discriminate.
  - inversion H; subst. rewrite rev_append_rev.
    destruct (seg_split _ _ _ HS) as (s1 & s2 & -> & A & B).
    apply seg_cat; auto. eapply (try_reducers_lay (reducers o) (fun _ h => h)); eauto.
  - exact (IH (x :: top) nts r' nts' cons HS H).
Qed.

(* the invariant: stack + pending literal + remaining input = the whole input *)
Definition lay_inv (ts : list token) (c : cfg) : Prop :=
  exists cons, SegLay (rev (rs c)) cons /\
    match pend c with
    | None => cons ++ toks c = ts
    | Some l => exists t2, term_tok t2 = true /\ l = parse_literal o t2 /\ cons ++ t2 :: toks c = ts
    end.

Lemma seg_snoc_tok r cons t : SegLay r cons -> SegLay (r ++ [ITok t]) (cons ++ [t]).
Proof. intros H. apply seg_cat; auto. constructor. constructor. Qed.
Lemma seg_snoc_impl r cons : SegLay r cons -> SegLay (r ++ [ITok impl_and]) cons.
Proof. intros H. rewrite <- (app_nil_r cons). apply seg_cat; auto. apply SG_impl. constructor. Qed.
Lemma seg_snoc_exp r cons e seg : SegLay r cons -> Lay e seg -> SegLay (r ++ [IExp e]) (cons ++ seg).
Proof. intros H L. apply seg_cat; auto. apply single; auto. Qed.

Lemma terminal_term t : is_terminal t = true -> is TEOF t = false -> is TErr t = false -> term_tok t = true.
Proof. destruct t as [ty v]; destruct ty; cbn; intros; try discriminate; reflexivity. Qed.

Lemma step_lay ts c : lay_inv ts c ->
  match step o df c with
  | Next c' => lay_inv ts c'
  | Accept e' => exists e cons, Lay e cons /\ cons ++ toks c = ts /\
                   e' = (if is_leaf_op (e_op e) && negb (String.eqb df "") then scw e else e)
  | _ => True
  end.
Proof.
  intros (cons & HS & HP). destruct c as [r n tk p]. cbn [rs pend toks] in *. unfold step. cbn [pend ns rs toks].
  assert (HR : match do_reduce o {| rs := r; ns := n; toks := tk; pend := p |} df with
               | Next c' => lay_inv ts c' | Accept _ => False | _ => True end).
  { unfold do_reduce. cbn [rs ns toks pend].
    destruct (reduce_loop o r [] n df) eqn:E; auto.
    exists cons. cbn [rs pend toks]. split; auto. eapply reduce_lay; eauto. rewrite app_nil_r. exact HS. }
  destruct p as [l|].
  - destruct HP as (t2 & Ht2 & -> & Hts).
    destruct (should_shift n impl_and) as [[|]|s]; auto.
    + exists (cons ++ [t2]). cbn [rs pend toks rev]. split.
      * apply seg_snoc_exp; [apply seg_snoc_impl; auto | constructor; auto].
      * rewrite <- app_assoc. exact Hts.
    + destruct (do_reduce o _ df); auto. contradiction.
  - destruct (is TEOF (hd eof tk) && Nat.eqb (List.length r) 1) eqn:EA.
    + destruct r as [|[?|e] [|? ?]]; auto.
      cbn [rev app] in HS. apply seg_exp_inv in HS. destruct HS as (seg & s' & -> & L & HS). apply seg_nil_inv in HS. subst s'.
      rewrite app_nil_r in HP.
      destruct (is_leaf_op (e_op e) && negb (String.eqb df "")) eqn:C.
      * unfold eq_. rewrite expr_new_dfcol. exists e, seg. split; auto. split; auto.
        unfold scw. apply andb_true_iff in C. destruct C as [C1 C2]. rewrite C1. apply negb_true_iff in C2. rewrite C2. reflexivity.
      * exists e, seg. repeat split; auto. rewrite C. reflexivity.
    + destruct (should_shift n (hd eof tk)) as [[|]|s] eqn:SS; auto.
      * assert (Htk : tk <> []).
        { intros ->. cbn in SS. unfold should_shift in SS. cbn in SS. discriminate. }
        destruct tk as [|t0 tk']; [contradiction|]. cbn [hd tl] in *.
        assert (Hne : is TEOF t0 = false /\ is TErr t0 = false).
        { unfold should_shift in SS. destruct (is TEOF t0); [discriminate|]. destruct (is TErr t0); [discriminate|]. auto. }
        destruct (is_terminal t0) eqn:IT.
        -- pose proof (terminal_term t0 IT (proj1 Hne) (proj2 Hne)) as Htt.
           destruct r as [|[?|?] ?].
           ++ exists (cons ++ [t0]). cbn [rs pend toks rev app]. split; [|rewrite <- app_assoc; exact HP].
              apply seg_nil_inv in HS. subst. cbn. apply single. constructor; auto.
           ++ exists (cons ++ [t0]). cbn [rs pend toks rev]. split; [|rewrite <- app_assoc; exact HP].
              apply seg_snoc_exp; auto. constructor; auto.
           ++ exists cons. cbn [rs pend toks]. split; auto. exists t0. auto.
        -- exists (cons ++ [t0]). cbn [rs pend toks rev]. split; [|rewrite <- app_assoc; exact HP].
           apply seg_snoc_tok; auto.
      * destruct (do_reduce o _ df); auto. contradiction.
Qed.

Theorem run_lay : forall fuel ts c, lay_inv ts c ->
  match run o fuel df c with
  | PTree e' => exists e cons rest, Lay e cons /\ cons ++ rest = ts /\
                  e' = (if is_leaf_op (e_op e) && negb (String.eqb df "") then scw e else e)
  | _ => True
  end.
Proof.
  induction fuel as [|f IH]; intros ts c HI; cbn [run]; auto.
  pose proof (step_lay ts c HI) as HS. destruct (step o df c) as [c'|e'| |s]; auto.
  - apply IH. exact HS.
  - destruct HS as (e & cons & L & Hts & ->). exists e, cons, (toks c). auto.
Qed.

(* C06: the returned tree (before the top-level default-field scoping) is a derivation of a prefix of the
   input; the rest is what the parser had not consumed when it accepted, i.e. the end-of-input token. *)
Theorem C06_sound : forall ts e', parse_toks o df ts = PTree e' ->
  exists e cons rest, Lay e cons /\ cons ++ rest = ts /\
    e' = (if is_leaf_op (e_op e) && negb (String.eqb df "") then scw e else e).
Proof.
  intros ts e' H. unfold parse_toks in H.
  pose proof (run_lay (4 * List.length ts + 4) ts {| rs := []; ns := [start]; toks := ts; pend := None |}) as HL.
  destruct (run o (4 * List.length ts + 4) df _) as [e0| | |] eqn:R; try discriminate.
  destruct (validate e0); try discriminate. inversion H; subst.
  apply HL. exists []. cbn. split; [constructor|reflexivity].
Qed.
Print Assumptions C06_sound.

End L.
